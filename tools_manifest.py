"""Regenerate MANIFEST.json (kept as code so the long texts stay readable)."""
import json
import os

HERE = os.path.dirname(os.path.abspath(__file__))
NA_COMMON = ('pure function of its arguments: no schedule, clock, fault, crash '
             'point or call history occurs in the property, so a simulator '
             'has nothing to control (DESIGN.md section 6)')
NA = {
 'C01': 'point membership = geometric definition: ' + NA_COMMON,
 'C02': 'centre/subpixel masks = sampled membership: ' + NA_COMMON,
 'C03': 'exact masks = true overlap area (numerical accuracy of a pure kernel): ' + NA_COMMON,
 'C04': 'bounding boxes enclose/minimal/confine the mask: ' + NA_COMMON,
 'C05': 'applying a mask = exact placement: ' + NA_COMMON + '; its "input image is never modified" clause is exercised by C13',
 'C06': 'pixel<->sky round trip: ' + NA_COMMON,
 'C07': 'sky region pixel image has WCS-dictated size/orientation: ' + NA_COMMON,
 'C08': 'compound regions and annuli obey set algebra (identity between pure functions over expression trees): ' + NA_COMMON,
 'C09': 'DS9 serialise->parse round trip and fixed point: ' + NA_COMMON,
 'C10': 'DS9 text read per DS9 conventions (grammar-based differential test of a pure parser; parser state lives inside one call): ' + NA_COMMON,
 'C11': 'CRTF round trip and CASA conventions: ' + NA_COMMON,
 'C12': 'FITS region tables round trip: ' + NA_COMMON + '; the file layer it mentions is covered as I/O by C14',
 'C15': 'membership/area/boxes/masks follow rigid motions (metamorphic relation between pure functions): ' + NA_COMMON,
 'C18': 'matplotlib artist depicts the region: ' + NA_COMMON,
 'C19': 'bounding-box arithmetic is exact integer algebra (asks for exhaustive small-scope enumeration, which is not simulation): ' + NA_COMMON,
 'C20': 'pixel coordinates behave as broadcast arrays: ' + NA_COMMON,
}

CHECKS = {
 'C13': dict(
  engine='hist',
  technique='deterministic simulation with fault injection: seeded histories (<=30) of public read-only/constructive calls over a shared pool (all region classes, coordinates, WCS, images, lists, DS9/CRTF texts, FITS tables, masks, boxes), with calls made to fail part-way by injected faults (bad argument, failing WCS collaborator, OS error, escalated warning, malformed line in a text; line-level aborts as amplifier); every call fingerprint-checks its inputs, is compared with the same call evaluated first in a fork of a pristine process, repeated calls are compared, and a fixed canary battery is compared with its pristine outcome after the history',
  category='exploration',
  text='Seeded search over call histories in one process. I1: after every call (normal or failing) the bit-exact fingerprints of its arguments, of a seeded third of the rest of the pool and of the run disk are unchanged, and the whole pool is unchanged at the end. I2: the outcome (result fingerprint, exception class/message, library warnings) of a call made after the history equals that of the same call evaluated alone in a fork of a pristine post-import process (half of the calls and always the last five in quick, all in thorough). I3: a call issued twice in a row gives the same outcome. I4: a fixed battery of about 250 parse/serialise/convert/file-round-trip calls gives after the history the outcome it gave in a pristine process. Process-wide state is part of I1: after every call a canary warning must still be treated the way the run configured it (a leaked warnings filter is a violation). Violations are minimised by dropping calls/faults and replay exactly in a fresh interpreter. Sampling gives evidence, not proof.',
  design_ref='DESIGN.md sections 2 (R2, R3), 3.1',
  note='Trusted: fingerprint code (ignores astropy caches by construction), numpy/astropy/matplotlib. The pristine reference shares the PYTHONHASHSEED of the run (R3). Line-level aborts are an amplifier: a violation counts only if it persists with every abort removed. Thread safety and re-entrancy are not explored. plot() and as_mpl_selector() are excluded (mutating the axes / tracking a widget is their job).'),
 'C14': dict(
  engine='fsx',
  technique='deterministic simulation with fault injection: seeded multi-step write/read histories against a private simulated disk (destination states, failing list elements at every position, bad options, escalated warnings, modelled locale encoding), disk snapshots before/after every call checked against refusal / failure-atomicity / read-back invariants and a reference model of the disk',
  category='exploration',
  text='Seeded search (not exhaustive) over write histories: every cell of format x destination-state x overwrite x fault-kind is visited several times per quick run and thousands of times per thorough run, with list length, failing position, API, format resolution, options, path style, warnings mode and locale encoding drawn from the seed. Each failed write is checked for a byte-identical disk, each refused write for OSError, each successful write by an 11-15 way read-back battery (format given / inferred from extension / from content signature of renamed and gzip copies) against parse(serialize(...)) computed independently of the file. Failures are minimised and replay exactly in a fresh interpreter. Sampling gives evidence, not proof.',
  design_ref='DESIGN.md sections 2 (R1), 3.2',
  note='Trusted: the harness snapshot/compare code, numpy/astropy/gzip and the tmpfs file system. Failures after the file has been opened that are caused by the environment (ENOSPC, EIO, signals) are outside the property as read in R1. Known finding F14-3 (UnicodeEncodeError truncates) is reported as KNOWN-FINDING, matched per failing step.'),
 'C16': dict(
  engine='val',
  technique='deterministic simulation: seeded histories (<=30 ops) of copy / copy-with-changes / deepcopy / mutate-the-copy (assignment, dict edits, in-place edits of coordinates, arrays, Quantities, nested lists) / compound building / Regions slicing, copying and list edits / comparisons, executed against a reference model (token vector per object, alias graph, list membership); independence, copy-law and equality invariants checked after every step',
  category='exploration',
  text='Seeded search over operation histories on a shared pool of slots covering every region class (pixel, sky, compound, regular polygon) and Regions lists. After every step the canonical fingerprint of every slot that is neither the target nor a by-design alias must be unchanged (V1); after every copy the class, every unnamed field and the == verdict must follow the copy law (V2); == / != of the touched slot against same-class partners must be reflexive, symmetric, consistent, never raise and agree with the token model (V3); list derivations and edits must match the list model (V4). Violations are minimised by dropping operations and replay exactly in a fresh interpreter. Sampling gives evidence, not proof.',
  design_ref='DESIGN.md section 3.3',
  note='Trusted: the reference model and fingerprint code, numpy, astropy. Equality under unit conversion is only exercised where astropy itself reports equality in both directions (one alternative unit per menu value). Compounds whose shared meta was edited in place are excluded from equality *prediction* (not from the independence check). Known finding F16-3 (a region holding an array-valued meta/visual entry of more than one element is not equal to its own copy) is reported as KNOWN-FINDING; the opposite error (unequal arrays compared equal) stays a violation.'),
 'C17': dict(
  engine='val',
  technique='deterministic simulation with fault injection: seeded histories (<=20 ops) interleaving valid and invalid constructions, assignments, deletions, RegionMeta/RegionVisual mutators (every dict entry point, valid keys before the invalid one) and Regions mutators on shared objects; the injected fault is an out-of-domain value from a per-kind catalogue; rejection class, atomic rejection (fingerprint of every live object unchanged), read-back and a standing domain invariant are checked after every step',
  category='exploration',
  text='Seeded search over histories: each op carries at most one invalid value (sizes 0/negative/NaN/inf/str/None/list/0-d and 1-d arrays/Quantity, wrong-kind or array coordinates, non-angular or bare angles, annulus ordering, metadata keys outside the vocabulary through 11 dict entry points, non-Region list members, bad compound operands, bad bounding-box/mask arguments). A1: the op raises ValueError/TypeError/KeyError; A2: after a rejected op every live object has the same fingerprint; A3: ops carrying only valid values succeed and read back the stored object; A4: after every step every live object satisfies an independently coded domain validator. Sampling gives evidence, not proof.',
  design_ref='DESIGN.md section 3.3',
  note='Trusted: the invalid-value catalogue and the independent domain validator in the harness. Arbitrary text values are treated as inside the domain (meta/visual VALUES are not specified by the property, only keys); non-finite rotation angles are outside it since the repair of F16-5. Known findings F17-2 (annulus ordering on assignment) and F17-11 (a refused augmented assignment to a Quantity-valued parameter leaves the refused value behind) are reported as KNOWN-FINDING, matched per failing step; objects tainted by them are exempt from A4 for the affected fields only.'),
}


def main():
    checks = []
    for pid, c in sorted(CHECKS.items()):
        checks.append({
            'property_id': pid,
            'quick_cmd': f'./check {pid} --tier quick',
            'thorough_cmd': f'./check {pid} --tier thorough',
            'evidence_file': f'/verif/evidence/{pid}.json',
            'replay_cmd_template': f'./check {pid} --replay {{path}}',
            'engine': c['engine'],
            'level_claimed': {'category': c['category'], 'text': c['text'],
                              'design_ref': c['design_ref']},
            'level_note': c['note'],
            'technique': c['technique'],
        })
    man = {
        'version': 1,
        'setup_cmd': '/venv/bin/python -c "import sys; sys.path.insert(0, \'/repo\'); import regions, numpy, astropy, matplotlib; import regions._geometry.core; print(regions.__file__)"',
        'hooks': {
            'guard': 'none (no hook was added to /repo; every seam is a monkeypatch applied by the harness for the duration of one call)',
            'enable': 'nothing to enable: checks import regions from /repo (VERIF_REPO) as it is',
            'baseline_off_cmd': 'cd /repo && /venv/bin/python -m pytest -ra -q -p no:cacheprovider --timeout=900 --continue-on-collection-errors',
            'source_commits': [],
            'add_only': True,
        },
        'engines': [
            {'name': 'hist', 'path': 'sim/engines/hist.py', 'serves_properties': ['C13'],
             'kind_free_text': 'history simulator: seeded call histories with injected failing calls, pristine-fork reference evaluation, canary battery'},
            {'name': 'fsx', 'path': 'sim/engines/fsx.py', 'serves_properties': ['C14'],
             'kind_free_text': 'file-system fault simulator: seeded write/read histories on a private disk, snapshots + reference model'},
            {'name': 'val', 'path': 'sim/engines/val.py', 'serves_properties': ['C16', 'C17'],
             'kind_free_text': 'value-semantics state machine: seeded operation histories over slots with a reference model'},
        ],
        'checks': checks,
        'notes': 'Technique: deterministic simulation with fault injection only. One integer (VERIF_SEED) decides every run; each run executes in its own fork of a pristine process image; determinism is self-tested on every invocation (same seeds twice, 16 vs 1 workers, fresh interpreter with another PYTHONHASHSEED). Known findings: known_findings.json.',
        'not_applicable': [{'property_id': k, 'reason': v}
                           for k, v in sorted(NA.items())
                           if k not in CHECKS],
    }
    with open(os.path.join(HERE, 'MANIFEST.json'), 'w') as fh:
        json.dump(man, fh, indent=1)


if __name__ == '__main__':
    main()
