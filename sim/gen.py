"""Seeded generators of recipes (regions of every class, meta/visual, WCS...).

Values come from small *menus* of canonical, well separated values; a value's
*token* is its menu index.  Two tokens are equal exactly when the intended
values are equal, so reference models never have to re-implement equality
near a tolerance boundary.
"""

# ---------------------------------------------------------------- menus
PIX_XY = [-3.5, 0.0, 1.0, 4.25, 10.0, 17.5, 25.0, 42.0]
SIZES = [0.5, 1.0, 2.0, 3.25, 5.0, 7.0, 12.5, 20.0]           # ascending
ASIZES = [(0.5, 'arcsec'), (2.0, 'arcsec'), (10.0, 'arcsec'),
          (30.0, 'arcsec'), (1.0, 'arcmin'), (0.05, 'deg'),
          (0.1, 'deg'), (0.5, 'deg')]                          # ascending
ANGLES = [0.0, 30.0, 45.0, 90.0, 123.5, -60.0, 200.0, 400.0, -725.0,
          # congruent to 30 and 45 modulo 360, to 90 modulo 180: different
          # angles all the same
          390.0, -315.0, 270.0]
# the same angles, some spelled in another unit (value, unit)
ANGLE_SPELLING = [(0.0, 'deg'), (30.0, 'deg'), (0.7853981633974483, 'rad'),
                  (90.0, 'deg'), (7410.0, 'arcmin'), (-60.0, 'deg'),
                  (3.490658503988659, 'rad'), (400.0, 'deg'), (-725.0, 'deg'),
                  (390.0, 'deg'), (-315.0, 'deg'), (270.0, 'deg')]
NVERTS = [3, 4, 5, 6, 8]
SKY_LONLAT = [(10.0, 20.0), (83.63, 22.01), (266.4, -29.0), (0.5, -0.3),
              (201.3, -43.0), (150.0, 2.2)]
SKY_FRAMES = ['icrs', 'fk5', 'galactic', 'fk4']
PIX_VERTS = [
    [[1.0, 5.0, 3.0], [1.0, 1.0, 6.0]],
    [[0.0, 10.0, 10.0, 0.0], [0.0, 0.0, 8.0, 8.0]],
    [[2.0, 9.0, 12.0, 6.0, 1.0], [1.0, 2.0, 8.0, 12.0, 7.0]],
    [[-3.0, 4.0, 4.0, 0.5, -3.0, -5.0], [-2.0, -2.0, 3.0, 6.0, 3.0, 0.0]],
    [[10.0, 20.0, 15.0], [10.0, 10.0, 25.0]],
    # a closed ring (the first vertex repeated at the end): a legal value
    [[0.0, 8.0, 8.0, 0.0, 0.0], [0.0, 0.0, 6.0, 6.0, 0.0]],
]
SKY_VERTS = [
    [[10.0, 10.2, 10.1], [20.0, 20.0, 20.2]],
    [[83.5, 83.8, 83.8, 83.5], [22.0, 22.0, 22.2, 22.2]],
    [[266.0, 266.5, 266.6, 266.3, 265.9], [-29.2, -29.2, -28.9, -28.7, -28.9]],
    [[150.0, 150.1, 150.05], [2.0, 2.0, 2.3]],
]
TEXTS = ['hello', 'Region A', 'x', 'a b c', 'M31', '', 'Hello', 'hello ',
         # ASCII control characters that are NOT line ends (form feed, file
         # separator): a text with them reads back as it was written
         'page\x0cbreak', 'a\x1cb']

PIXEL_CLASSES = {
    'CirclePixelRegion': [('center', 'pixpos'), ('radius', 'size')],
    'EllipsePixelRegion': [('center', 'pixpos'), ('width', 'size'),
                           ('height', 'size'), ('angle', 'angle')],
    'RectanglePixelRegion': [('center', 'pixpos'), ('width', 'size'),
                             ('height', 'size'), ('angle', 'angle')],
    'PolygonPixelRegion': [('vertices', 'pixverts')],
    'RegularPolygonPixelRegion': [('center', 'pixpos'), ('nvertices', 'nvert'),
                                  ('radius', 'size'), ('angle', 'angle')],
    'CircleAnnulusPixelRegion': [('center', 'pixpos'),
                                 ('inner_radius', 'size'),
                                 ('outer_radius', 'size')],
    'EllipseAnnulusPixelRegion': [('center', 'pixpos'),
                                  ('inner_width', 'size'),
                                  ('outer_width', 'size'),
                                  ('inner_height', 'size'),
                                  ('outer_height', 'size'),
                                  ('angle', 'angle')],
    'RectangleAnnulusPixelRegion': [('center', 'pixpos'),
                                    ('inner_width', 'size'),
                                    ('outer_width', 'size'),
                                    ('inner_height', 'size'),
                                    ('outer_height', 'size'),
                                    ('angle', 'angle')],
    'LinePixelRegion': [('start', 'pixpos'), ('end', 'pixpos')],
    'PointPixelRegion': [('center', 'pixpos')],
    'TextPixelRegion': [('center', 'pixpos'), ('text', 'text')],
}
SKY_CLASSES = {
    'CircleSkyRegion': [('center', 'skypos'), ('radius', 'asize')],
    'EllipseSkyRegion': [('center', 'skypos'), ('width', 'asize'),
                         ('height', 'asize'), ('angle', 'angle')],
    'RectangleSkyRegion': [('center', 'skypos'), ('width', 'asize'),
                           ('height', 'asize'), ('angle', 'angle')],
    'PolygonSkyRegion': [('vertices', 'skyverts')],
    'CircleAnnulusSkyRegion': [('center', 'skypos'),
                               ('inner_radius', 'asize'),
                               ('outer_radius', 'asize')],
    'EllipseAnnulusSkyRegion': [('center', 'skypos'),
                                ('inner_width', 'asize'),
                                ('outer_width', 'asize'),
                                ('inner_height', 'asize'),
                                ('outer_height', 'asize'),
                                ('angle', 'angle')],
    'RectangleAnnulusSkyRegion': [('center', 'skypos'),
                                  ('inner_width', 'asize'),
                                  ('outer_width', 'asize'),
                                  ('inner_height', 'asize'),
                                  ('outer_height', 'asize'),
                                  ('angle', 'angle')],
    'LineSkyRegion': [('start', 'skypos'), ('end', 'skypos')],
    'PointSkyRegion': [('center', 'skypos')],
    'TextSkyRegion': [('center', 'skypos'), ('text', 'text')],
}
ALL_CLASSES = {**PIXEL_CLASSES, **SKY_CLASSES}

# (inner, outer) pairs whose ordering the annulus classes constrain
ANNULUS_PAIRS = {
    'CircleAnnulusPixelRegion': [('inner_radius', 'outer_radius')],
    'CircleAnnulusSkyRegion': [('inner_radius', 'outer_radius')],
}
for _c in ('EllipseAnnulusPixelRegion', 'RectangleAnnulusPixelRegion',
           'EllipseAnnulusSkyRegion', 'RectangleAnnulusSkyRegion'):
    ANNULUS_PAIRS[_c] = [('inner_width', 'outer_width'),
                         ('inner_height', 'outer_height')]

FITS_CLASSES = ['CirclePixelRegion', 'EllipsePixelRegion',
                'RectanglePixelRegion', 'PolygonPixelRegion',
                'RegularPolygonPixelRegion', 'CircleAnnulusPixelRegion',
                'EllipseAnnulusPixelRegion', 'PointPixelRegion']

KIND_SIZES = {'pixpos': len(PIX_XY) ** 2, 'size': len(SIZES),
              'asize': len(ASIZES), 'angle': len(ANGLES),
              'nvert': len(NVERTS),
              'skypos': len(SKY_LONLAT) * len(SKY_FRAMES),
              'pixverts': len(PIX_VERTS),
              'skyverts': len(SKY_VERTS) * len(SKY_FRAMES),
              'text': len(TEXTS)}


def value_recipe(kind, tok):
    """Recipe of the menu value ``tok`` of parameter kind ``kind``."""
    if kind == 'pixpos':
        n = len(PIX_XY)
        return {'t': 'pix', 'x': PIX_XY[tok % n], 'y': PIX_XY[tok // n]}
    if kind == 'size':
        return SIZES[tok]
    if kind == 'asize':
        v, unit = ASIZES[tok]
        return {'t': 'q', 'v': v, 'u': unit}
    if kind == 'angle':
        v, unit = ANGLE_SPELLING[tok]
        return {'t': 'q', 'v': v, 'u': unit}
    if kind == 'nvert':
        return NVERTS[tok]
    if kind == 'skypos':
        n = len(SKY_LONLAT)
        lon, lat = SKY_LONLAT[tok % n]
        return {'t': 'sky', 'lon': lon, 'lat': lat,
                'frame': SKY_FRAMES[tok // n]}
    if kind == 'pixverts':
        x, y = PIX_VERTS[tok]
        return {'t': 'pix', 'x': list(x), 'y': list(y)}
    if kind == 'skyverts':
        n = len(SKY_VERTS)
        lon, lat = SKY_VERTS[tok % n]
        return {'t': 'sky', 'lon': list(lon), 'lat': list(lat),
                'frame': SKY_FRAMES[tok // n]}
    if kind == 'text':
        return TEXTS[tok]
    raise ValueError(kind)


# ------------------------------------------------------- meta / visual
META_VALUES = {
    'include': [True, False, 0, 1],
    'tag': [{'t': 'list', 'v': ['g1']}, {'t': 'list', 'v': ['g1', 'g2']},
            {'t': 'list', 'v': []},
            # values a serialiser may be tempted to "normalise"
            {'t': 'list', 'v': [' padded tag ', 'g2']},
            {'t': 'list', 'v': [1, 'Mixed Case']}],
    'text': ['lbl', 'some text', 'T{1}', ' padded ', 'tab\there', 'v\x0bt',
             'Source #3 (cal)'],
    'label': ['L1', 'a label', ' Padded Label ', 'rs\x1esep', 'a # b'],
    'name': ['n1', 'n2'],
    'comment': ['c1', 'a comment'],
    'component': [1, 2, 7],
    'edit': [0, 1], 'move': [0, 1], 'delete': [0, 1], 'fixed': [0, 1],
    'highlite': [0, 1], 'select': [0, 1], 'source': [0, 1],
    'background': [0, 1], 'rotate': [0, 1],
    'frame': ['icrs', 'galactic'],
    'range': [{'t': 'list', 'v': [{'t': 'q', 'v': 1.0, 'u': 'GHz'},
                                  {'t': 'q', 'v': 2.0, 'u': 'GHz'}]}],
    'corr': [{'t': 'list', 'v': ['I', 'Q']}, {'t': 'list', 'v': ['XX']}],
    'type': ['ann', 'bound'],
    'veltype': ['RADIO'],
    'restfreq': ['1.42GHz'],
    'line': ['1 0'],
    'textrotate': [0, 1],
    'composite': [1],
}
VISUAL_VALUES = {
    'color': ['green', 'red', 'blue', '#00ff00'],
    'facecolor': ['red', 'blue'],
    'edgecolor': ['red', 'green'],
    'linewidth': [1, 2, 3.5],
    'fontname': ['helvetica', 'times'],
    'fontsize': [10, 12],
    'fontweight': ['bold', 'normal'],
    'fontstyle': ['normal', 'italic', 'roman'],     # (roman: DS9's name)
    'linestyle': ['dashed', 'solid',
                  {'t': 'tuple', 'v': [0, {'t': 'tuple', 'v': [3, 4]}]}],
    'marker': ['o', 's', '+', 'x', 'D', '*'],
    'markersize': [5, 11],
    'markeredgewidth': [1, 2],
    'fill': [True, False, 0, 1],
    'symbol': ['*', 'o', '+'],
    'symsize': [1, 3],
    'symthick': [1, 2],
    'rotation': [0.0, 30.0],
    'textangle': [45, 0],
    'textrotate': [0, 1],
    'dash': [0, 1],
    'dashlist': ['8 3'],
    'default_style': ['ds9', 'mpl', None],
    'labelpos': ['top', 'bottom'],
    'labeloff': ['1, 1'],
    'labelcolor': ['red'],
    'usetex': [True, False],
    'font': ['helvetica', 'Times New Roman'],
    'dashes': [{'t': 'tuple', 'v': [3, 4]}],
    'line': ['1 1'],
}
# keys that the public vocabulary maps to another key
VISUAL_ALIASES = {'point': 'symbol', 'width': 'linewidth'}

# meta/visual keys that serializers care most about (drawn more often)
META_HOT = ['include', 'tag', 'text', 'label', 'component', 'name', 'comment',
            'source', 'background', 'range', 'corr', 'frame']
VISUAL_HOT = ['color', 'linewidth', 'fontname', 'fontsize', 'fontweight',
              'fontstyle', 'linestyle', 'marker', 'markersize', 'fill',
              'facecolor', 'edgecolor', 'symbol', 'symsize', 'rotation',
              'default_style']


def meta_items(rng, pmax=4, hot=0.8, exclude=()):
    """Ordered list of [key, value-recipe] pairs for a RegionMeta."""
    n = rng.weighted([(0, 3), (1, 3), (2, 3), (3, 2), (pmax, 1)])
    keys = []
    for _ in range(n):
        pool = META_HOT if rng.chance(hot) else sorted(META_VALUES)
        k = rng.pick(pool)
        if k not in keys and k not in exclude:
            keys.append(k)
    return [[k, rng.pick(META_VALUES[k])] for k in keys]


def visual_items(rng, pmax=4, hot=0.8, exclude=()):
    n = rng.weighted([(0, 3), (1, 3), (2, 3), (3, 2), (pmax, 1)])
    keys = []
    for _ in range(n):
        pool = VISUAL_HOT if rng.chance(hot) else sorted(VISUAL_VALUES)
        k = rng.pick(pool)
        if k not in keys and k not in exclude:
            keys.append(k)
    return [[k, rng.pick(VISUAL_VALUES[k])] for k in keys]


# ------------------------------------------------------------- regions
def draw_tokens(rng, cls, small=False):
    """Draw a valid token per field of class ``cls`` (annuli ordered)."""
    toks = {}
    for name, kind in ALL_CLASSES[cls]:
        n = KIND_SIZES[kind]
        if small and kind == 'size':
            n = min(n, 6)
        toks[name] = rng.randrange(n)
    for inner, outer in ANNULUS_PAIRS.get(cls, ()):
        a, b = toks[inner], toks[outer]
        if a == b:
            b = a + 1 if a + 1 < KIND_SIZES[dict(ALL_CLASSES[cls])[inner]] \
                else a
            if b == a:
                a -= 1
        toks[inner], toks[outer] = min(a, b), max(a, b)
    return toks


def region_from_tokens(cls, toks, meta=None, visual=None):
    r = {'t': 'region', 'cls': cls,
         'params': {name: value_recipe(kind, toks[name])
                    for name, kind in ALL_CLASSES[cls]}}
    if meta is not None:
        r['meta'] = {'t': 'meta', 'v': meta}
    if visual is not None:
        r['visual'] = {'t': 'visual', 'v': visual}
    return r


def simple_region(rng, classes=None, with_meta=0.6, small=True,
                  meta_exclude=(), visual_exclude=()):
    """Recipe of a random non-compound region."""
    cls = rng.pick(classes or sorted(ALL_CLASSES))
    toks = draw_tokens(rng, cls, small=small)
    meta = visual = None
    if rng.chance(with_meta):
        meta = meta_items(rng, exclude=meta_exclude)
        visual = visual_items(rng, exclude=visual_exclude)
    r = region_from_tokens(cls, toks, meta, visual)
    return r


def compound_region(rng, sky=False, depth=1, explicit_meta=0.3):
    classes = sorted(SKY_CLASSES if sky else PIXEL_CLASSES)
    classes = [c for c in classes if not c.startswith(('Text', 'Line',
                                                       'Point'))]

    def operand(d):
        if d > 0 and rng.chance(0.3):
            return compound_region(rng, sky, d - 1, explicit_meta)
        return simple_region(rng, classes)
    r = {'t': 'compound',
         'cls': 'CompoundSkyRegion' if sky else 'CompoundPixelRegion',
         'r1': operand(depth), 'r2': operand(depth),
         'op': rng.pick(['and_', 'or_', 'xor'])}
    if rng.chance(explicit_meta):
        r['meta'] = {'t': 'meta', 'v': meta_items(rng)}
        r['visual'] = {'t': 'visual', 'v': visual_items(rng)}
    return r


# ----------------------------------------------------------------- wcs
WCS_MENU = [
    {'t': 'wcs', 'ctype': ['RA---TAN', 'DEC--TAN'], 'crval': [10.0, 20.0],
     'crpix': [10.0, 10.0], 'cdelt': [-0.001, 0.001]},
    {'t': 'wcs', 'ctype': ['RA---SIN', 'DEC--SIN'], 'crval': [83.63, 22.01],
     'crpix': [5.5, 7.5], 'cdelt': [-0.002, 0.002], 'rot': 30.0},
    {'t': 'wcs', 'ctype': ['GLON-CAR', 'GLAT-CAR'], 'crval': [0.0, 0.0],
     'crpix': [20.0, 20.0], 'cdelt': [-0.02, 0.02]},
    {'t': 'wcs', 'ctype': ['RA---TAN', 'DEC--TAN'], 'crval': [266.4, -29.0],
     'crpix': [1.0, 1.0], 'cdelt': [0.0005, 0.0005], 'rot': -45.0,
     'radesys': 'FK5', 'equinox': 2000.0},
    # a distorted image (SIP), and one that knows its own size and bounds
    {'t': 'wcs', 'ctype': ['RA---TAN-SIP', 'DEC--TAN-SIP'],
     'crval': [10.0, 20.0], 'crpix': [12.0, 9.0], 'cdelt': [-0.001, 0.001],
     'sip': True},
    {'t': 'wcs', 'ctype': ['RA---TAN', 'DEC--TAN'], 'crval': [150.0, 2.2],
     'crpix': [25.0, 20.0], 'cdelt': [-0.0005, 0.0005], 'rot': 10.0,
     'pixel_shape': [50, 40], 'pixel_bounds': [[-0.5, 49.5], [-0.5, 39.5]]},
]
