"""hist - history simulator for property C13.

A run is a seeded history of <= 30 public read-only/constructive calls over a
shared pool of objects (every region class, coordinates, WCS, images, region
lists, DS9/CRTF texts, FITS tables, masks, boxes), some of which carry an
injected fault that makes the call fail part-way (bad argument, failing WCS
collaborator, OS error, escalated warning, malformed line inside a text, or -
as an amplifier only - an abort at the k-th executed line of the library).

  I1 no mutation        fingerprints of the call's inputs (and a seeded part
                        of the rest of the pool, and of the run's disk) are
                        unchanged after every call, normal or failing
  I2 history independence   the same call evaluated alone in a fork of a
                        pristine process gives the same outcome
  I3 repeatability      the same call issued twice in a row gives the same
                        outcome
  I4 canary battery     a fixed battery evaluated after the history gives the
                        outcome it gave in a pristine process
  P1 global-state probe (counted, not an oracle)
"""
import copy
import hashlib
import operator
import os
import re
import shutil
import sys

import numpy as np

from sim import gen
from sim.fingerprint import canon, diff, fpc
from sim.recipes import build
from sim.rng import Stream
from sim.seams import FsSeam, warnings_mode

ENGINE = 'hist'
PROPERTY = 'C13'
# DS9 serialisation orders the hoisted ``global`` keys by set iteration, so
# texts differ between interpreters with different PYTHONHASHSEED (R3/O1)
HASHSEED_SENSITIVE = True
_ADDR = re.compile(r'0x[0-9a-fA-F]+')

DS9_FILES = ['ds9.fk5.reg', 'ds9.image.reg', 'ds9.galactic.reg',
             'ds9.icrs.reg', 'ds9.composite.reg', 'ds9.color.reg',
             'ds9.fk4.hms.reg', 'ds9.ecliptic.reg', 'fk5_reference.reg',
             'plot_image.reg', 'ds9.fits.reg', 'ds9.icrs.oneline.reg',
             'ds9.fk5.hms.reg', 'ds9.icrs.hms.reg', 'ds9.galactic.hms.reg',
             'ds9.ecliptic.hms.reg', 'ds9.fk4.reg', 'ds9.color.spaces.reg',
             'ds9.image.oneline.reg', 'galactic_reference.reg']
CRTF_FILES = ['CRTFgeneral.crtf', 'CRTF_CARTA.crtf', 'CRTF_labelcolor.crtf',
              'crtf_carta_sexagesimal.crtf', 'CRTFgeneraloutput.crtf',
              'CRTF_labelcolor_output.crtf']
FITS_FILES = ['regions_nowcs.fits', 'regions_wcs.fits']

DS9_LINES = [
    'image; circle(10,12,3) # color=red tag={g1}',
    'fk5; circle(83.63,22.01,10") # text={a b} width=2',
    'image; ellipse(5,6,3,2,30) # fill=1 dash=1',
    'image; box(7,8,4,3,45)',
    'image; polygon(1,1,5,1,3,6) # tag={t1} tag={t2}',
    'image; circle(4,5,2) # tag={ grp A } text={ padded }',
    'image; annulus(10,10,2,5)',
    'image; ellipse(10,10,2,1,4,3,20)',
    'image; box(10,10,2,1,4,3,20)',
    'image; line(1,2,8,9) # line=0 0',
    'image; point(3,4) # point=diamond 7',
    'image; text(5,5) # text={hello} font="times 12 bold italic" textangle=30',
    'galactic; circle(10.1,0.2,0.05)',
    'icrs; ellipse(10:00:00,+20:00:00,30",20",15)',
    'fk4; point(12.5,-3.5) # point=x',
    '-circle(20,20,4)',
    'image; annulus(10,10,1,2,3,4)',
    'global color=blue width=3',
    'image',
    'fk5',
    'circle(1,2,3)',
    'image; vector(1,2,3,4)',
    'image; panda(1,2,0,90,1,3,6,1)',
    # the same tokens in other frames and positions (hours in equatorial
    # frames, degrees elsewhere), unit suffixes, quoting styles
    'fk5; circle(10:00:00,+20:00:00,30")',
    'galactic; circle(10:00:00,+20:00:00,30")',
    'ecliptic; circle(10:00:00,+20:00:00,30")',
    'fk4; circle(10:00:00,+20:00:00,30")',
    'fk5; box(10h00m00s,+20d00m00s,1\',30",10)',
    'icrs; circle(150.0d,2.2d,0.01r)',
    'icrs; circle(2.6r,0.04r,20")',
    'image; circle(10i,12i,3i)',
    'image; box(3p,4p,5p,6p,0)',
    'fk5; circle(83.63,22.01,10") # text="double quoted"',
    "fk5; circle(83.63,22.01,10\") # text='single quoted'",
    'image; text(5,5) # text={semi;colon}',
    'j2000; circle(83.63,22.01,10")',
    'b1950; circle(83.63,22.01,10")',
    'image; point(3,4) # point=boxcircle 11',
    'image; point(3,4) # point=arrow',
    'image; point(3,4) # point=cross 5',
    '# text(10,12) text={comment style}',
    'image; ellipse(10,10,2,1,4,3,6,5,20)',
    'image; box(10,10,2,1,4,3,6,5,20)',
    'physical; circle(1,2,3)',
    "fk5; circle(83.63,22.01,0.5')",
    'fk5; polygon(10:00:00,+20:00:00,10:00:10,+20:00:00,10:00:05,+20:01:00)',
    'galactic; polygon(10.0,0.1,10.1,0.1,10.05,0.2)',
    'fk5; line(10:00:00,+20:00:00,10:00:10,+20:01:00) # line=1 1',
    'image; circle(1,2,3) # dashlist=8 3 dash=1 color=#ff0000',
    'image; circle(1,2,3) # select=0 highlite=0 fixed=1 edit=0 move=0 '
    'delete=0 source=0',
    'image; circle(1,2,3) || # composite',
    'image;circle(1,2,3);box(4,5,6,7,0)',
    'image; text(5,5) # text={rot} textangle=30 textrotate=0',
    'fk5; text(83.63,22.01) # text={sky rot} textangle=45 textrotate=0 '
    'font="helvetica 10 normal roman"',
    'image; text(7,7) # text={rot1} textangle=30 textrotate=1',
    'image; point(3,4) # point=circle 9 color=red width=2 text={p}',
    'image; ellipse(5,6,3,2,30) # dash=1 dashlist=8 3 fill=0 width=2 '
    'tag={a} tag={b}',
    'fk5;circle(10:00:00,+20:00:00,30");galactic;circle(10:00:00,+20:00:00,30")',
]
DS9_BAD_LINES = [
    'image; circle(1,2', 'fk5; circle(10,20,abc")', 'image; bogus(1,2,3)',
    'image; ellipse(1,2,3)', 'image; circle(1,2,3) # point=nosuchsymbol',
    'image; text(1,2) # font="times big"', 'image; polygon(1,2,3)',
    'image; circle(1,2,-3)', 'image; point(1,2) # point=a b c',
    'image; box(1,2,0,3,4)', 'foo; circle(1,2,3)', 'image; annulus(1,2,5,3)',
]
CRTF_LINES = [
    'circle[[10pix, 12pix], 3pix], color=red',
    'circle[[83.63deg, 22.01deg], 10arcsec], coord=FK5, label="a b"',
    'ellipse[[5pix, 6pix], [3pix, 2pix], 30deg]',
    'box[[1pix, 2pix], [8pix, 9pix]]',
    'centerbox[[7pix, 8pix], [4pix, 3pix]]',
    'rotbox[[7pix, 8pix], [4pix, 3pix], 45deg]',
    'poly[[1pix, 1pix], [5pix, 1pix], [3pix, 6pix]]',
    'annulus[[10pix, 10pix], [2pix, 5pix]]',
    'line[[1pix, 2pix], [8pix, 9pix]]',
    'symbol[[3pix, 4pix], +]',
    'text[[5pix, 5pix], \'hello\']',
    '-circle[[20pix, 20pix], 4pix]',
    'global coord=J2000, color=blue',
    'ann circle[[10pix, 12pix], 3pix]',
    'circle[[18:20:30.1, +10.11.54.6], 10arcsec]',
    'circle[[18h20m30.1s, +10d11m54.6s], 10arcsec], coord=J2000',
    'symbol[[32.1423deg, 12.1412deg], D], linewidth=2, coord=J2000, symsize=2',
    'circle[[83.63deg, 22.01deg], 10arcsec], coord=GALACTIC',
    'box[[18h12m24s, -23d11m00s], [18h12m34s, -23d12m00s]]',
    'ellipse[[83.63deg, 22.01deg], [20arcsec, 10arcsec], 30deg], coord=ICRS, '
    'linestyle=--',
    'circle[[1.0rad, 0.2rad], 0.001rad]',
    'circle[[83.63deg, 22.01deg], 1arcmin], range=[1GHz, 2GHz], corr=[I, Q], '
    'veltype=RADIO, restfreq=1.42GHz',
    'annulus[[83.63deg, 22.01deg], [10arcsec, 20arcsec]], coord=B1950',
    'text[[83.63deg, 22.01deg], "double quoted"], font=Helvetica, '
    'fontsize=12, fontstyle=bold, usetex=false',
    'poly[[83.6deg, 22.0deg], [83.7deg, 22.0deg], [83.65deg, 22.1deg]], '
    'coord=FK5',
    'circle[[10pix, 12pix], 3pix], symthick=2, labelpos=top, labelcolor=red, '
    'labeloff=[1, 1]',
    'circle[[10pix,12pix],3pix]',
    '+circle[[10pix, 12pix], 3pix]',
    'rotbox[[83.63deg, 22.01deg], [20arcsec, 10arcsec], 30deg], '
    'coord=ECLIPTIC',
    'circle[[83.63deg, 22.01deg], 10arcsec], coord=SUPERGAL',
]
CRTF_BAD_LINES = [
    'circle[[1pix, 2pix], ]', 'foo[[1pix, 2pix], 3pix]',
    'circle[[1pix, 2pix], 3furlong]', 'circle[[1pix], 3pix]',
    'ellipse[[1pix, 2pix], [3pix], 4deg]', 'global coord=NOSUCH',
    'circle[[1pix, 2pix], 3pix], coord=BOGUS',
]

MODES = ['center', 'exact', 'subpixels']

# FITS region tables as other tools write them (hand-written, not produced by
# the library's own serialiser): min/max rectangles, excluded shapes, points
# without a SHAPE column, no units, a plain Table, unsupported and invalid
# shapes part-way, a radius vector that is too short
_T1 = [['SHAPE', ['rectangle', 'rotrectangle', '!circle', 'point'], None],
       ['X', [[1.0, 5.0], [2.0, 8.0], [4.0, 0.0], [7.0, 0.0]], 'pix'],
       ['Y', [[2.0, 6.0], [1.0, 3.0], [5.0, 0.0], [8.0, 0.0]], 'pix'],
       ['R', [[0.0, 0.0], [0.0, 0.0], [3.0, 0.0], [0.0, 0.0]], 'pix'],
       ['ROTANG', [0.0, 30.0, 0.0, 0.0], 'deg'],
       ['COMPONENT', [1, 2, 3, 4], None]]
FITS_TABLES = [
    {'t': 'fitstable', 'cols': _T1},
    {'t': 'fitstable', 'cols': _T1, 'plain': True},
    {'t': 'fitstable', 'cols': [[n, v, None] for n, v, _ in _T1[:5]]},
    {'t': 'fitstable', 'cols': [['X', [1.0, 2.0, 9.5], 'pix'],
                                ['Y', [3.0, 4.0, 0.5], 'pix']]},
    {'t': 'fitstable', 'cols': [
        ['SHAPE', ['circle', 'pie', 'bogus', 'circle'], None],
        ['X', [1.0, 2.0, 3.0, 4.0], 'pix'], ['Y', [1.0, 2.0, 3.0, 4.0], 'pix'],
        ['R', [2.0, 2.0, 2.0, 2.0], 'pix']]},
    {'t': 'fitstable', 'cols': [
        ['SHAPE', ['circle', 'ellipse'], None],
        ['X', [1.0, 2.0], 'pix'], ['Y', [1.0, 2.0], 'pix'],
        ['R', [[2.0], [3.0]], 'pix'], ['ROTANG', [0.0, 10.0], 'deg']]},
    {'t': 'fitstable', 'cols': [
        ['SHAPE', ['box', 'rotbox', 'annulus', 'elliptannulus'], None],
        ['X', [5.0, 6.0, 7.0, 8.0], 'pix'], ['Y', [5.0, 6.0, 7.0, 8.0], 'pix'],
        ['R', [[4.0, 2.0, 0.0, 0.0], [4.0, 2.0, 0.0, 0.0],
               [1.0, 3.0, 0.0, 0.0], [1.0, 2.0, 3.0, 4.0]], 'pix'],
        ['ROTANG', [0.0, 45.0, 0.0, 20.0], 'deg']]},
]


def bad_line(rng, fmt):
    """A malformed line: from the fixed catalogue, or a valid line whose k-th
    shape parameter is corrupted (so that the parser fails part-way through
    the parameter list, at every possible position)."""
    fixed = DS9_BAD_LINES if fmt == 'ds9' else CRTF_BAD_LINES
    good = DS9_LINES if fmt == 'ds9' else CRTF_LINES
    if rng.chance(0.4):
        return rng.pick(fixed)
    for _ in range(8):
        line = rng.pick(good)
        o, c = ('(', ')') if fmt == 'ds9' else ('[', ']')
        i, j = line.find(o), line.rfind(c)
        if i < 0 or j < i:
            continue
        inner = line[i + 1:j]
        parts = inner.split(',')
        k = rng.randrange(len(parts))
        parts[k] = rng.pick(['abc', '3"', '', '1:2:3:4', '4x', 'nan', '-'])
        return line[:i + 1] + ','.join(parts) + line[j:]
    return rng.pick(fixed)


class InjectedAbort(BaseException):
    """Raised by the line-level amplifier inside library code."""


def clean(s, root=''):
    s = str(s)[:400]
    if root:
        s = s.replace(root, '<run>')
    return _ADDR.sub('0x', s)[:240]


# ------------------------------------------------------------------ pool
def gen_pool(rng):
    pool = []

    def add(kind, recipe):
        pool.append({'kind': kind, 'recipe': recipe})
    pix = sorted(gen.PIXEL_CLASSES)
    sky = sorted(gen.SKY_CLASSES)
    for c in rng.sample(pix, 8) + [rng.pick(pix) for _ in range(3)]:
        add('pixreg', gen.simple_region(rng, [c], with_meta=0.75))
    for c in rng.sample(sky, 5) + [rng.pick(sky)]:
        add('skyreg', gen.simple_region(rng, [c], with_meta=0.75))
    for c in ('EllipsePixelRegion', 'RectanglePixelRegion',
              'RegularPolygonPixelRegion', 'RectangleSkyRegion'):
        r = gen.region_from_tokens(c, gen.draw_tokens(rng, c, small=True))
        del r['params']['angle']          # the constructor's default angle
        add('skyreg' if 'Sky' in c else 'pixreg', r)
    # regions whose numbers are not float64: integer / float32 vertex
    # arrays, integer centres and sizes (as in the package's own docs)
    add('pixreg', {'t': 'region', 'cls': 'PolygonPixelRegion', 'params': {
        'vertices': {'t': 'pix',
                     'x': {'t': 'arr', 'v': [1, 5, 3], 'dtype': 'int64'},
                     'y': {'t': 'arr', 'v': [1, 1, 6], 'dtype': 'int64'}}},
        'meta': {'t': 'meta', 'v': gen.meta_items(rng)}})
    add('pixreg', {'t': 'region', 'cls': 'PolygonPixelRegion', 'params': {
        'vertices': {'t': 'pix',
                     'x': {'t': 'arr', 'v': [2.5, 9, 12, 6], 'dtype': 'float32'},
                     'y': {'t': 'arr', 'v': [1, 2, 8.5, 12], 'dtype': 'float32'}}}})
    add('pixreg', {'t': 'region', 'cls': 'CirclePixelRegion', 'params': {
        'center': {'t': 'pix', 'x': 7, 'y': 9}, 'radius': 4}})
    add('pixreg', {'t': 'region', 'cls': 'RectanglePixelRegion', 'params': {
        'center': {'t': 'pix', 'x': 12, 'y': 8}, 'width': 6, 'height': 3,
        'angle': {'t': 'q', 'v': 30, 'u': 'deg'}}})
    # other constructor forms: a polygon with an origin, a compound with a
    # caller-supplied operator, a list built from a tuple
    add('pixreg', {'t': 'region', 'cls': 'PolygonPixelRegion', 'params': {
        'vertices': {'t': 'pix', 'x': [1.0, 5.0, 3.0], 'y': [1.0, 1.0, 6.0]},
        'origin': {'t': 'pix', 'x': 4.0, 'y': 2.5}}})
    cc = gen.compound_region(rng, sky=False, depth=1)
    cc['op'] = {'t': 'callable', 'v': 'custom_and'}
    add('pixcomp', cc)
    # sizes and angles spelled as Angle objects (the docstrings' spelling)
    add('skyreg', {'t': 'region', 'cls': 'EllipseSkyRegion', 'params': {
        'center': {'t': 'sky', 'lon': 10.0, 'lat': 20.0, 'frame': 'icrs'},
        'width': {'t': 'angle', 'v': 40.0, 'u': 'arcsec'},
        'height': {'t': 'angle', 'v': 0.3, 'u': 'arcmin'},
        'angle': {'t': 'angle', 'v': rng.pick([400.0, -725.0, 30.0]),
                  'u': 'deg'}},
        'meta': {'t': 'meta', 'v': gen.meta_items(rng)}})
    add('pixreg', {'t': 'region', 'cls': 'EllipsePixelRegion', 'params': {
        'center': {'t': 'pix', 'x': 10.0, 'y': 12.0},
        'width': {'t': 'npf', 'v': 6.0, 'dtype': 'float32'},
        'height': {'t': 'npf', 'v': 3.0},
        'angle': {'t': 'angle', 'v': rng.pick([400.0, -725.0, 1.2]),
                  'u': rng.pick(['deg', 'rad'])}}})
    exotic = [{'t': 'sky', 'lon': 10.0, 'lat': 20.0, 'frame': 'icrs',
               'distance': 1.0, 'representation': 'cartesian'},
              {'t': 'sky', 'lon': 10.0, 'lat': 20.0, 'frame': 'icrs',
               'distance': 2.5},
              {'t': 'sky', 'lon': 83.6, 'lat': 22.0, 'frame': 'fk4',
               'obstime': 'J1980'},
              {'t': 'sky', 'lon': 10.0, 'lat': 20.0, 'frame': 'galactic',
               'representation': 'unitspherical'}]
    for c in rng.sample(['CircleSkyRegion', 'EllipseSkyRegion',
                         'RectangleSkyRegion', 'TextSkyRegion',
                         'PointSkyRegion', 'CircleAnnulusSkyRegion'], 3):
        r = gen.region_from_tokens(c, gen.draw_tokens(rng, c, small=True))
        r['params']['center'] = dict(rng.pick(exotic))
        add('skyreg', r)
    add('skyreg', {'t': 'region', 'cls': 'PolygonSkyRegion', 'params': {
        'vertices': {'t': 'sky', 'lon': [10.0, 10.01, 9.99],
                     'lat': [20.0, 20.01, 19.99], 'frame': 'icrs',
                     'distance': 1.0,
                     'representation': rng.pick(['cartesian', None])}}})
    add('pixcomp', gen.compound_region(rng, sky=False, depth=1))
    add('pixcomp', _annulus_like(rng))
    add('skycomp', gen.compound_region(rng, sky=True, depth=1))
    for _ in range(2):
        add('pix0', {'t': 'pix', 'x': rng.pick(gen.PIX_XY),
                     'y': rng.pick(gen.PIX_XY)})
    add('pixN', {'t': 'pix', 'x': [rng.pick(gen.PIX_XY) for _ in range(5)],
                 'y': [rng.pick(gen.PIX_XY) for _ in range(5)]})
    add('pixN', {'t': 'pix', 'x': {'t': 'arr', 'v': [[1.0, 4.0, 9.5],
                                                      [0.0, 12.0, 30.0]]},
                 'y': {'t': 'arr', 'v': [[2.0, 4.0, 8.5], [7.0, 3.0, 1.0]]}})
    add('pixN', {'t': 'pix', 'x': {'t': 'arr', 'v': []},
                 'y': {'t': 'arr', 'v': []}})
    for _ in range(2):
        lon, lat = rng.pick(gen.SKY_LONLAT)
        add('sky0', {'t': 'sky', 'lon': lon, 'lat': lat,
                     'frame': rng.pick(gen.SKY_FRAMES)})
    v = rng.pick(gen.SKY_VERTS)
    add('skyN', {'t': 'sky', 'lon': list(v[0]), 'lat': list(v[1]),
                 'frame': rng.pick(gen.SKY_FRAMES)})
    for w in rng.sample(gen.WCS_MENU, 4):
        add('wcs', w)
    # coordinates carrying more than a direction
    add('sky0', {'t': 'sky', 'lon': 10.0, 'lat': 20.0, 'frame': 'icrs',
                 'distance': 2.5})
    add('sky0', {'t': 'sky', 'lon': 83.6, 'lat': 22.0, 'frame': 'fk4',
                 'obstime': 'J1980'})
    add('skyN', {'t': 'sky', 'lon': [10.0, 10.01, 9.99],
                 'lat': [20.0, 20.01, 19.99], 'frame': 'icrs',
                 'distance': 1.0, 'representation': 'cartesian'})
    # coordinates in less common spellings
    add('sky0', {'t': 'sky', 'lon': 150.0, 'lat': 2.2, 'frame': 'fk5',
                 'equinox': 'J1975'})
    add('skyN', {'t': 'sky', 'lon': [10.0, 10.1, 201.3], 'lat': [20.0, 20.1, -43.0],
                 'frame': 'galactic'})
    add('pixN', {'t': 'pix', 'x': {'t': 'arr', 'v': [3, 7, 11], 'dtype': 'int64'},
                 'y': {'t': 'arr', 'v': [2, 9, 30], 'dtype': 'int64'}})
    add('skyreg', {'t': 'region', 'cls': 'CircleSkyRegion', 'params': {
        'center': {'t': 'sky', 'lon': 150.0, 'lat': 2.2, 'frame': 'fk5',
                   'equinox': 'J1975'},
        'radius': {'t': 'q', 'v': 0.002, 'u': 'rad'}}})
    add('image', {'t': 'image', 'shape': [40, 50], 'kind': 'float', 'seed': 1})
    add('image', {'t': 'image', 'shape': [40, 50], 'kind': 'int', 'seed': 2})
    add('image', {'t': 'image', 'shape': [30, 30], 'kind': 'float', 'seed': 3,
                  'unit': 'Jy'})
    add('image', {'t': 'image', 'shape': [40, 50], 'kind': 'int', 'seed': 4,
                  'dtype': 'uint8'})
    add('image', {'t': 'image', 'shape': [40, 50], 'kind': 'float', 'seed': 5,
                  'dtype': 'float32'})
    for k, sp in enumerate(rng.sample(['nan', 'masked', 'bigendian',
                                       'fortran', 'strided', 'readonly'], 3)):
        add('image', {'t': 'image', 'shape': [40, 50], 'kind': 'float',
                      'seed': 6 + k, 'special': sp})
    fits_ok = [c for c in gen.FITS_CLASSES]
    for classes, exclude in ((sorted(gen.ALL_CLASSES), ()),
                             (sky, ()), (fits_ok, ('component',)),
                             (pix, ())):
        n = rng.randint(1, 6)
        add('regions', {'t': 'regions', 'v': [
            gen.simple_region(rng, classes, meta_exclude=exclude)
            for _ in range(n)]})
    # a list that holds the same region object twice, a list built from a
    # tuple, and empty inputs of every kind
    add('regions', {'t': 'regions_dup', 'v': [
        gen.simple_region(rng, pix), gen.simple_region(rng, pix)]})
    add('regions', {'t': 'regions', 'as': 'tuple', 'v': [
        gen.simple_region(rng, pix), gen.simple_region(rng, pix)]})
    add('regions', {'t': 'regions', 'v': []})
    add('text:ds9', {'t': 'lit', 'v': rng.pick([
        '', '\n\n', '# Region file format: DS9 version 4.1\n'])})
    add('text:crtf', {'t': 'lit', 'v': '#CRTFv0\n'})
    add('table', {'t': 'fitstable', 'cols': []})
    for t in rng.sample(FITS_TABLES, 3):
        add('table', t)
    for f in rng.sample(DS9_FILES, 2):
        add('text:ds9', {'t': 'datafile', 'path': 'io/ds9/tests/data/' + f})
    add('text:ds9', {'t': 'lit', 'v': _ds9_text(rng)})
    add('text:ds9', {'t': 'serialized', 'fmt': 'ds9', 'regions': [
        gen.simple_region(rng, sorted(gen.ALL_CLASSES))
        for _ in range(rng.randint(1, 5))]})
    for f in rng.sample(CRTF_FILES, 2):
        add('text:crtf', {'t': 'datafile', 'path': 'io/crtf/tests/data/' + f})
    add('text:crtf', {'t': 'lit', 'v': _crtf_text(rng)})
    add('table', {'t': 'serialized', 'fmt': 'fits', 'regions': [
        gen.simple_region(rng, fits_ok, meta_exclude=('component',))
        for _ in range(rng.randint(1, 5))]})
    add('table', {'t': 'table_variant',
                  'variant': rng.pick(['lower', 'mixed', 'extra', 'reversed']),
                  'regions': [gen.simple_region(rng, fits_ok,
                                                meta_exclude=('component',))
                              for _ in range(rng.randint(1, 3))]})
    add('table', {'t': 'table_variant', 'variant': 'other_shapes',
                  'regions': [
                      gen.region_from_tokens('RectanglePixelRegion',
                                             gen.draw_tokens(rng, 'RectanglePixelRegion')),
                      gen.simple_region(rng, fits_ok, with_meta=0.0)]})
    add('bbox', {'t': 'bbox', 'v': [1, 10, 2, 8]})
    add('bbox', {'t': 'bbox', 'v': [-3, 4, 5, 30]})
    add('optdict', {'t': 'dict', 'v': [['alpha', 0.5]]})
    add('optdict', {'t': 'dict', 'v': []})
    add('mask', {'t': 'mask', 'mode': 'center', 'region': gen.simple_region(
        rng, ['CirclePixelRegion', 'EllipsePixelRegion',
              'RectanglePixelRegion', 'PolygonPixelRegion'], with_meta=0.0)})
    return pool


def _annulus_like(rng):
    """A compound of two concentric shapes combined with xor (the only
    compound that has an artist)."""
    cls = rng.pick(['CirclePixelRegion', 'EllipsePixelRegion',
                    'RectanglePixelRegion'])
    t1 = gen.draw_tokens(rng, cls, small=True)
    t2 = dict(t1)
    for k in t2:
        if k != 'center' and k != 'angle':
            t2[k] = min(t1[k] + 2, gen.KIND_SIZES['size'] - 1)
    return {'t': 'compound', 'cls': 'CompoundPixelRegion',
            'r1': gen.region_from_tokens(cls, t1, gen.meta_items(rng),
                                         gen.visual_items(rng)),
            'r2': gen.region_from_tokens(cls, t2), 'op': 'xor'}


def _ds9_text(rng):
    lines = ['# Region file format: DS9 version 4.1'] if rng.chance(0.7) else []
    lines += [rng.pick(DS9_LINES) for _ in range(rng.randint(1, 8))]
    return '\n'.join(lines) + '\n'


def _crtf_text(rng):
    lines = ['#CRTFv0']
    lines += [rng.pick(CRTF_LINES) for _ in range(rng.randint(1, 6))]
    return '\n'.join(lines) + '\n'


# ------------------------------------------------------------ FaultyWCS
def make_faulty_wcs(real, fail_at, exc_kind):
    """A real astropy WCS whose n-th transformation call raises."""
    from astropy.wcs import WCS, NoConvergence

    class FaultyWCS(WCS):
        _verif_calls = 0
        _verif_fail_at = fail_at
        _verif_fired = False

        def _verif_tick(self):
            type(self)._verif_calls += 1
            if type(self)._verif_calls == type(self)._verif_fail_at:
                type(self)._verif_fired = True
                if exc_kind == 'nan':
                    return True
                if exc_kind == 'noconv':
                    raise NoConvergence('injected: WCS iteration diverged',
                                        best_solution=None, accuracy=None,
                                        niter=3, divergent=None,
                                        slow_conv=None)
                raise ValueError('injected: WCS transformation failed')

    def wrap(name):
        orig = getattr(WCS, name)

        def f(self, *a, **k):
            nan = self._verif_tick()
            res = orig(self, *a, **k)
            if nan:
                # no exception: the position has no counterpart (e.g. it is
                # outside the projection's domain)
                if isinstance(res, np.ndarray):
                    res = np.full_like(res, np.nan, dtype=float)
                else:
                    res = [np.full_like(np.asarray(x, dtype=float), np.nan)
                           for x in res]
            return res
        f.__name__ = name
        return f
    for name in ('all_pix2world', 'all_world2pix', 'wcs_pix2world',
                 'wcs_world2pix'):
        setattr(FaultyWCS, name, wrap(name))
    w = FaultyWCS(real.to_header(relax=True))
    w.wcs.set()
    return w


# ----------------------------------------------------------- the executor
class Arg:
    """Per-op argument resolver (hints in S, forced indices in R)."""

    def __init__(self, ex, op, forced=None):
        self.ex = ex
        self.hints = list(op.get('s', []))
        self.rng = Stream(op['r'], 'op')
        self.forced = list(forced) if forced is not None else None
        self.r = op['r']
        self.repeat = bool(op.get('repeat'))
        self.cell = op.get('cell', 0)
        self.twin_vary = op.get('twin_vary')
        self.resolved = []
        self.fault = op.get('fault') or {}
        self.fired = False
        self.extras = []          # [name, object, canon before the call]

    def track(self, name, obj):
        """Register an argument built for this call only (option dict, mask
        array, origin, header ...): it must be unchanged after the call."""
        self.extras.append([name, obj, canon(obj)])
        return obj

    def slot(self, kinds, pred=None):
        ex = self.ex
        if self.forced is not None:
            i = self.forced.pop(0)
            ex.ensure(i)
        else:
            cands = [i for i, s in enumerate(ex.pool)
                     if s['kind'] in kinds and 'obj' in s
                     and (pred is None or pred(s['obj']))]
            if not cands:
                raise Skip()
            h = self.hints.pop(0) if self.hints else 0
            i = cands[h % len(cands)]
        self.resolved.append(i)
        return ex.pool[i]['obj']

    def bad(self):
        return self.fault.get('kind') == 'bad_arg'


class Skip(Exception):
    pass


class Twice:
    """Result of the same call issued twice in a row on the same objects
    (inside one op): both results must be equal."""

    def __init__(self, first, second):
        self.first, self.second = first, second


class DerivationMismatch(Exception):
    """In a pristine process the call that produced a derived input did not
    produce it (it raised, or returned another kind of object): that call's
    outcome depends on the history."""

    def __init__(self, slot, op_index, rec):
        super().__init__(f'slot {slot} from op {op_index}')
        self.slot, self.op_index, self.rec = slot, op_index, rec


REG = ('pixreg', 'pixcomp', 'skyreg', 'skycomp')
PIXREG = ('pixreg', 'pixcomp')
SKYREG = ('skyreg', 'skycomp')


class Exec:
    def __init__(self, plan, ctx, single=False):
        self.plan = plan
        self.ctx = ctx
        self.cfg = plan['cfg']
        self.pool = [dict(s) for s in plan['pool']]
        self.single = single
        base = ctx.get('tmp') or ('/dev/shm' if os.path.isdir('/dev/shm')
                                  else '/tmp')
        self.root = os.path.join(base, 'regions-verif',
                                 f'h{os.getpid()}-{plan["seed"]}')
        self.disk = os.path.join(self.root, 'disk')
        self.nfiles = 0
        self.line_counts = {}

    # ---- pool
    def build_slot(self, i):
        s = self.pool[i]
        if 'obj' not in s:
            import warnings
            with warnings.catch_warnings():
                warnings.simplefilter('ignore')
                s['obj'] = build(s['recipe'])
            if s['kind'] == 'wcs':
                s['obj'].wcs.set()
            s['canon0'] = canon(s['obj'])

    def ensure(self, i):
        """R-mode: build slot i (recipe or derivation chain) on demand."""
        while len(self.pool) <= i:
            self.pool.append({'kind': 'pending'})
        s = self.pool[i]
        if 'obj' in s:
            return
        if 'recipe' in s:
            self.build_slot(i)
            return
        # derived slot: execute its producer (recorded by S)
        prod = self.derivations[i]
        op = self.plan['ops'][prod['op_index']]
        out = self.run_op(op, forced=prod['resolved'], store_as=i)
        if 'obj' not in self.pool[i]:
            raise DerivationMismatch(i, prod['op_index'], out)

    def setup_disk(self):
        shutil.rmtree(self.root, ignore_errors=True)
        os.makedirs(self.disk)

    def teardown(self):
        shutil.rmtree(self.root, ignore_errors=True)

    def disk_canon(self):
        out = []
        for dirpath, dirnames, filenames in os.walk(self.disk):
            dirnames.sort()
            for name in sorted(filenames):
                p = os.path.join(dirpath, name)
                rel = os.path.relpath(p, self.disk)
                try:
                    with open(p, 'rb') as fh:
                        out.append([rel, hashlib.sha1(
                            fh.read()).hexdigest()[:16]])
                except OSError:
                    out.append([rel, 'unreadable'])
        return out

    # ---- one call
    def run_op(self, op, forced=None, store_as=None, want_canon=False):
        """Execute one op. Returns dict(outcome, digest, resolved, ...)."""
        a = Arg(self, op, forced)
        name = op['op']
        try:
            fn, desc, post = getattr(self, 'op_' + name)(a)
        except Skip:
            return {'skip': True}
        fault = a.fault
        wrec = []
        tracer = None
        twice_diff = None
        if fault.get('kind') == 'line_abort':
            tracer = LineAbort(fault['k'])
        mode = self.cfg['warn']
        try:
            with FsSeam(self.disk, self.cfg['encoding']):
                with warnings_mode(mode, wrec):
                    if tracer:
                        tracer.start()
                    try:
                        res = fn()
                        if hasattr(res, '__next__'):
                            res = list(res)
                        if isinstance(res, Twice):
                            c1, c2 = canon(res.first), canon(res.second)
                            if c1 != c2:
                                twice_diff = diff(c1, c2)
                            res = res.first
                    finally:
                        if tracer:
                            tracer.stop()
            out = ['ok', canon(post(res) if post else res)]
        except InjectedAbort:
            out = ['abort', 'InjectedAbort', f'line {fault["k"]}']
            res = None
        except Exception as exc:
            out = ['raise', type(exc).__name__, clean(exc, self.root)]
            res = None
        fired = False
        k = fault.get('kind')
        if k == 'line_abort':
            fired = tracer.fired
            self.line_counts[name] = max(self.line_counts.get(name, 0),
                                         tracer.count)
        elif k == 'collab_fail':
            fired = bool(getattr(a, 'faulty', None) is not None
                         and type(a.faulty)._verif_fired)
        elif k in ('bad_arg', 'os_fail', 'parse_error'):
            fired = a.fired
        elif k == 'warn_error':
            fired = out[0] == 'raise' and 'Warning' in out[1]
        changed = []
        if twice_diff is not None:
            changed.append('the call repeated at once on the same objects '
                           f'returned something else: {twice_diff}')
        for w in [w for w in wrec if w[0] == '<warning filters>']:
            wrec.remove(w)
            changed.append('warnings.filters: ' + w[1])
        for nm, obj, c0 in a.extras:
            try:
                c1 = canon(obj)
            except Exception as exc:      # the object was left unusable
                c1 = ['unreadable', type(exc).__name__]
            if c1 != c0:
                changed.append(f'{nm}: {diff(c0, c1)}')
        rec = {'op': name, 'desc': desc, 'resolved': a.resolved,
               'extras_changed': changed,
               'outcome': out[:1] + ([out[1], out[2]] if out[0] != 'ok'
                                     else []),
               # a raised call is compared by exception class only: message
               # texts may legitimately carry run-specific detail (e.g. the
               # name of a temporary file)
               'digest': fpc([out if out[0] == 'ok' else out[:2], wrec]),
               'warnings': len(wrec),
               'fault': k, 'fired': fired}
        if want_canon:
            rec['canon'] = [out, wrec]
        # store the result as a new pool slot
        if out[0] == 'ok' and (op.get('store') or store_as is not None):
            kind = result_kind(res, op)
            if kind:
                slot = {'kind': kind, 'obj': res, 'canon0': canon(res),
                        'derived': True}
                if store_as is not None:
                    self.pool[store_as] = slot
                    rec['stored'] = store_as
                elif sum(1 for s in self.pool if s.get('derived')) < 14:
                    self.pool.append(slot)
                    rec['stored'] = len(self.pool) - 1
        return rec

    # ================================================================ ops
    def _wcs(self, a):
        w = a.slot(('wcs',))
        f = a.fault
        if f.get('kind') == 'collab_fail':
            w = make_faulty_wcs(w, f.get('n', 1), f.get('exc', 'noconv'))
            a.faulty = w
            a.track('wcs (failing collaborator)', w)
        elif a.bad() and a.rng.chance(0.5):
            a.fired = True
            c = a.rng.randrange(4)
            if c == 3:
                # a WCS without a celestial pair / with a third axis
                from astropy.wcs import WCS
                w3 = WCS(naxis=3)
                w3.wcs.ctype = ['RA---TAN', 'DEC--TAN', 'FREQ']
                w3.wcs.crval = [10.0, 20.0, 1.4e9]
                w3.wcs.crpix = [10.0, 10.0, 1.0]
                w3.wcs.cdelt = [-0.001, 0.001, 1e6]
                w3.wcs.set()
                return a.track('3-axis wcs', w3)
            return [None, 'wcs', 5][c]
        return w

    def op_contains(self, a):
        reg = a.slot(PIXREG)
        pc = a.slot(('pix0', 'pixN'))
        if a.bad():
            a.fired = True
            pc = a.rng.pick([(1.0, 2.0), None, a.slot(('sky0',))])
        return (lambda: reg.contains(pc)), f'{_n(reg)}.contains', None

    def op_in(self, a):
        reg = a.slot(PIXREG)
        pc = a.slot(('pixN',)) if a.bad() else a.slot(('pix0',))
        a.fired = a.bad()
        return (lambda: pc in reg), f'in {_n(reg)}', None

    def op_sky_contains(self, a):
        reg = a.slot(SKYREG)
        sc = a.slot(('sky0', 'skyN'))
        w = self._wcs(a)
        return (lambda: reg.contains(sc, w)), f'{_n(reg)}.contains(sky)', None

    def op_area_bbox(self, a):
        reg = a.slot(PIXREG)
        which = a.rng.pick(['area', 'bounding_box'])
        return (lambda: getattr(reg, which)), f'{_n(reg)}.{which}', None

    def op_to_mask(self, a):
        reg = a.slot(PIXREG)
        try:
            # bounded runs: a derived region (e.g. to_pixel of a sky compound
            # whose members are 100 deg apart) may span 1e5 pixels; its mask
            # would need gigabytes
            shp = reg.bounding_box.shape
            if shp[0] * shp[1] > 2_000_000:
                raise Skip()
        except Skip:
            raise
        except Exception:
            pass
        mode = a.rng.pick(MODES)
        sub = a.rng.randint(1, 12)
        if a.bad():
            a.fired = True
            if a.rng.chance(0.5):
                mode = a.rng.pick(['bogus', None, 'Center'])
            else:
                mode, sub = 'subpixels', a.rng.pick([0, -1, 2.5, None, 'x'])
        if a.rng.chance(0.3):
            return (lambda: reg.to_mask(mode, sub)), \
                f'{_n(reg)}.to_mask({mode!r},{sub!r}) positional', None
        return (lambda: reg.to_mask(mode=mode, subpixels=sub)), \
            f'{_n(reg)}.to_mask({mode!r},{sub!r})', None

    def op_mask_apply(self, a):
        mask = a.slot(('mask',))
        img = a.slot(('image',))
        v = a.rng.pick(['to_image', 'cutout', 'cutout_nocopy', 'multiply',
                        'multiply', 'get_values', 'get_values',
                        'get_values_mask', 'get_values_mask', 'slices',
                        'array', 'shape'])
        shape = a.rng.pick([(40, 50), (5, 5), (12, 9), (100, 3)])
        fill = a.rng.pick([0.0, np.nan, -1])
        if a.bad():
            a.fired = True
            img = a.rng.pick([np.arange(10.0), np.zeros((2, 3, 4)), None])
            shape = a.rng.pick([(5,), (2, 3, 4), 'x'])
        a.track('image', img)
        if v == 'to_image':
            fn = lambda: mask.to_image(shape)  # noqa
        elif v == 'cutout':
            fn = lambda: mask.cutout(img, fill_value=fill, copy=True)  # noqa
        elif v == 'cutout_nocopy':
            fn = lambda: mask.cutout(img, fill_value=fill, copy=False)  # noqa
        elif v == 'multiply':
            fn = lambda: mask.multiply(img, fill_value=fill)  # noqa
        elif v == 'get_values':
            fn = lambda: mask.get_values(img)  # noqa
        elif v == 'get_values_mask':
            m = (np.arange(np.size(img)).reshape(np.shape(img)) % 3 == 0) \
                if hasattr(img, 'shape') else None
            a.track('mask=', m)
            fn = lambda: mask.get_values(img, mask=m)  # noqa
        elif v == 'slices':
            fn = lambda: mask.get_overlap_slices(shape)  # noqa
        elif v == 'array':
            fn = lambda: np.array(mask)  # noqa
        else:
            fn = lambda: mask.shape  # noqa
        return fn, f'mask.{v}', None

    def op_bbox_ops(self, a):
        b1 = a.slot(('bbox',))
        b2 = a.slot(('bbox',))
        v = a.rng.pick(['union', 'intersection', 'as_artist', 'to_region',
                        'props', 'slices', 'eq', 'repr', 'from_float'])
        if v == 'from_float':
            from regions import RegionBoundingBox
            x = sorted(a.rng.uniform(-5, 30) for _ in range(2))
            y = sorted(a.rng.uniform(-5, 30) for _ in range(2))
            return (lambda: RegionBoundingBox.from_float(x[0], x[1], y[0],
                                                         y[1])), \
                'bbox.from_float', None
        if v == 'union':
            fn = lambda: b1 | b2  # noqa
        elif v == 'intersection':
            fn = lambda: b1 & b2  # noqa
        elif v == 'as_artist':
            fn = lambda: b1.as_artist(facecolor='none', edgecolor='red')  # noqa
        elif v == 'to_region':
            fn = lambda: b1.to_region()  # noqa
        elif v == 'props':
            fn = lambda: (b1.shape, b1.extent, b1.center)  # noqa
        elif v == 'slices':
            shape = a.rng.pick([(40, 50), (5, 5)])
            fn = lambda: b1.get_overlap_slices(shape)  # noqa
        elif v == 'eq':
            fn = lambda: (b1 == b2, b1 == b1)  # noqa
        else:
            fn = lambda: (_ADDR.sub('0x', repr(b1)), _ADDR.sub('0x', str(b1)))  # noqa
        return fn, f'bbox.{v}', None

    def op_to_sky(self, a):
        reg = a.slot(PIXREG)
        w = self._wcs(a)
        return (lambda: reg.to_sky(w)), f'{_n(reg)}.to_sky', None

    def op_to_pixel(self, a):
        reg = a.slot(SKYREG)
        w = self._wcs(a)
        return (lambda: reg.to_pixel(w)), f'{_n(reg)}.to_pixel', None

    def _angle_arg(self, a):
        import astropy.units as u
        from astropy.coordinates import Angle
        deg = a.rng.pick(gen.ANGLES)
        how = a.rng.pick(['deg', 'deg', 'rad', 'arcmin', 'Angle',
                          'Angle_rad', 'f32'])
        q = {'deg': lambda: deg * u.deg,
             'rad': lambda: np.deg2rad(deg) * u.rad,
             'arcmin': lambda: deg * 60.0 * u.arcmin,
             'Angle': lambda: Angle(deg, 'deg'),
             'Angle_rad': lambda: Angle(np.deg2rad(deg), 'rad'),
             'f32': lambda: u.Quantity(np.float32(deg), u.deg)}[how]()
        return a.track('angle', q)

    def op_rotate(self, a):
        reg = a.slot(PIXREG)
        c = a.slot(('pix0',))
        ang = self._angle_arg(a)
        if a.bad():
            a.fired = True
            if a.rng.chance(0.5):
                ang = a.rng.pick([30.0, 'x', None])
            else:
                c = a.rng.pick([(1, 2), None])
        if a.rng.chance(0.3):
            return (lambda: reg.rotate(center=c, angle=ang)), \
                f'{_n(reg)}.rotate keywords', None
        return (lambda: reg.rotate(c, ang)), f'{_n(reg)}.rotate', None

    def op_copy(self, a):
        reg = a.slot(REG)
        kw = {}
        if a.rng.chance(0.4):
            kw['meta'] = build({'t': 'meta', 'v': gen.meta_items(a.rng)})
        if a.rng.chance(0.3):
            kw['visual'] = build({'t': 'visual', 'v': gen.visual_items(a.rng)})
        fields = gen.ALL_CLASSES.get(_n(reg))
        if fields and a.rng.chance(0.4):
            f, kind = a.rng.pick(fields)
            if kind not in ('text',):
                kw[f] = build(gen.value_recipe(
                    kind, a.rng.randrange(gen.KIND_SIZES[kind])))
        if a.rng.chance(0.15):
            which = a.rng.pick(['meta', 'visual'])
            return (lambda: getattr(reg, which).copy()), \
                f'{_n(reg)}.{which}.copy()', None
        a.track('changes', kw)
        how = a.rng.pick(['copy', 'copy', 'deepcopy'])
        if how == 'deepcopy':
            return (lambda: copy.deepcopy(reg)), f'deepcopy({_n(reg)})', None
        return (lambda: reg.copy(**kw)), f'{_n(reg)}.copy({sorted(kw)})', None

    def op_combine(self, a):
        r1 = a.slot(REG)
        sky = 'Sky' in _n(r1)
        r2 = a.slot(SKYREG if sky else PIXREG)
        if a.bad():
            a.fired = True
            r2 = a.rng.pick([None, 5, a.slot(PIXREG if sky else SKYREG)])
        opn = a.rng.pick(['and_', 'or_', 'xor'])
        return (lambda: getattr(operator, opn)(r1, r2)), \
            f'{_n(r1)} {opn} {_n(r2)}', None

    def op_as_artist(self, a):
        reg = a.slot(PIXREG)
        origin = a.rng.pick([(0, 0), (1, 1), (3.5, -2.0)])
        kw = a.rng.pick([{}, {}, {'color': 'red'}, {'lw': 2}, {'alpha': 0.5},
                         {'label': 'L'}])
        if a.bad():
            a.fired = True
            kw = a.rng.pick([{'nosuchkw': 1}, {'lw': 'x'}])
        kw = a.track('artist kwargs', dict(kw))
        origin = a.track('origin', origin if a.rng.chance(0.5)
                         else np.array(origin, dtype=float))
        return (lambda: reg.as_artist(origin=origin, **kw)), \
            f'{_n(reg)}.as_artist({origin},{kw})', None

    def op_plot(self, a):
        """``plot()`` on an off-screen figure (no pyplot state): the region,
        the origin and the keyword arguments are inputs like any other."""
        from matplotlib.figure import Figure
        reg = a.slot(PIXREG + ('bbox',))
        kw = dict(a.rng.pick(
            [{}, {}, {'color': 'red'}, {'lw': 2}, {'label': 'L'},
             {'alpha': 0.3, 'zorder': 4}]))
        if a.bad():
            a.fired = True
            kw['nosuchkw'] = 1
        kw = a.track('plot kwargs', kw)
        origin = a.rng.pick([(0, 0), (1, 1), (3.5, -2.0)])
        origin = a.track('origin', origin if a.rng.chance(0.5)
                         else np.array(origin, dtype=float))

        def fn():
            ax = Figure().add_subplot()
            return reg.plot(origin=origin, ax=ax, **kw)
        return fn, f'{_n(reg)}.plot({origin},{kw})', None

    def op_selector(self, a):
        """``as_mpl_selector`` on a copy made for this call (attaching a
        selector to a region is stateful by design), with an option dict the
        application keeps and reuses."""
        from matplotlib.figure import Figure
        reg = a.slot(('pixreg',), lambda o: _n(o) in (
            'RectanglePixelRegion', 'EllipsePixelRegion'))
        props = a.slot(('optdict',))
        kw = {'sync': a.rng.chance(0.5)}
        if a.rng.chance(0.7):
            kw['props'] = props
        if a.bad():
            a.fired = True
            kw['nosuchkw'] = 1

        def fn():
            ax = Figure().add_subplot()
            sel = reg.copy().as_mpl_selector(ax, **kw)
            art = sel._selection_artist
            return [type(sel).__name__, [float(x) for x in sel.extents],
                    art.get_edgecolor(), art.get_facecolor(),
                    art.get_linewidth(), art.get_linestyle(),
                    art.get_alpha()]
        return fn, f'{_n(reg)}.as_mpl_selector({sorted(kw)})', None

    def op_cell(self, a):
        """Run ``index`` of a batch visits cell ``index mod #cells`` of region
        class x kind of call, with a region that carries EVERY meta and visual
        key (so that code reached only for one class and one key - a text
        region's rotation, a FITS component number - is executed in every
        batch): the region is an input like any other."""
        import astropy.units as u
        from regions import Regions
        cells = hist_cells()
        cls, what = cells[a.cell % len(cells)]
        r = a.rng
        toks = gen.draw_tokens(r, cls, small=True)
        meta = [[k, r.pick(v)] for k, v in sorted(gen.META_VALUES.items())
                if not (what == 'fits' and k == 'component' and r.chance(0.5))]
        visual = [[k, r.pick(v)] for k, v in sorted(gen.VISUAL_VALUES.items())]
        reg = build(gen.region_from_tokens(cls, toks, meta, visual))
        a.track('cell region', reg)
        sky = 'Sky' in cls
        if what in ('ds9', 'crtf', 'fits'):
            kw = {'coordsys': 'image'} if what == 'crtf' and not sky else {}
            other = build(gen.region_from_tokens(cls, toks))
            lst = a.track('cell list', Regions([reg, other]))
            return (lambda: Twice([reg.serialize(format=what, **kw),
                                   lst.serialize(format=what, **kw)],
                                  [reg.serialize(format=what, **kw),
                                   lst.serialize(format=what, **kw)])), \
                f'cell {cls}.serialize({what})', None
        if what.startswith('write_'):
            fmt = what[6:]
            kw = {'coordsys': 'image'} if fmt == 'crtf' and not sky else {}
            path = os.path.join(self.disk, f'cell{a.r % 1000003}.dat')

            def fn():
                reg.write(path, format=fmt, overwrite=True, **kw)
                return Regions.read(path, format=fmt)
            return fn, f'cell {cls}.write+read({fmt})', None
        if what == 'convert':
            w = a.slot(('wcs',))
            if sky:
                return (lambda: reg.to_pixel(w)), f'cell {cls}.to_pixel', None
            return (lambda: reg.to_sky(w)), f'cell {cls}.to_sky', None
        if what == 'contains':
            if sky:
                w = a.slot(('wcs',))
                s = a.slot(('sky0', 'skyN'))
                return (lambda: reg.contains(s, w)), \
                    f'cell {cls}.contains', None
            p = a.slot(('pix0', 'pixN'))
            return (lambda: reg.contains(p)), f'cell {cls}.contains', None
        if what == 'copy':
            return (lambda: [reg.copy(), copy.deepcopy(reg), reg == reg,
                             repr(reg), str(reg)]), f'cell {cls}.copy', \
                (lambda res: res[:3] + [_ADDR.sub('0x', x) for x in res[3:]])
        if what == 'mpl':
            return (lambda: [reg.visual.define_mpl_kwargs(k)
                             for k in ('Patch', 'Line2D', 'Text')]), \
                f'cell {cls}.define_mpl_kwargs', None
        # pixel regions only
        if what == 'artist':
            return (lambda: [reg.as_artist(), reg.as_artist(origin=(1, 2))]), \
                f'cell {cls}.as_artist', None
        if what == 'mask':
            return (lambda: [reg.bounding_box, reg.area,
                             reg.to_mask(mode='center'),
                             reg.to_mask(mode='subpixels', subpixels=3)]), \
                f'cell {cls}.to_mask', None
        p = a.slot(('pix0',))
        return (lambda: reg.rotate(p, 30 * u.deg)), f'cell {cls}.rotate', None

    def op_mpl_kwargs(self, a):
        reg = a.slot(REG)
        art = a.rng.pick(['Patch', 'Line2D', 'Text'])
        if a.bad():
            a.fired = True
            art = a.rng.pick(['Foo', None])
        return (lambda: reg.visual.define_mpl_kwargs(art)), \
            f'{_n(reg)}.visual.define_mpl_kwargs({art!r})', None

    def op_eq(self, a):
        r1 = a.slot(REG)
        r2 = a.slot(REG)
        return (lambda: (r1 == r2, r1 != r2, r1 == r1, r2 == r1)), \
            f'{_n(r1)} == {_n(r2)}', None

    def op_repr(self, a):
        o = a.slot(REG + ('regions', 'pix0', 'pixN', 'mask', 'bbox'))
        return (lambda: (repr(o), str(o))), f'repr({_n(o)})', \
            (lambda res: tuple(_ADDR.sub('0x', x) for x in res))

    def op_polygon(self, a):
        reg = a.slot(('pixreg',), lambda o: _n(o) in (
            'RectanglePixelRegion', 'RegularPolygonPixelRegion'))
        if _n(reg) == 'RectanglePixelRegion' and a.rng.chance(0.5):
            return (lambda: reg.corners), f'{_n(reg)}.corners', None
        return (lambda: reg.to_polygon()), f'{_n(reg)}.to_polygon', None

    def op_pixcoord(self, a):
        import astropy.units as u
        p = a.slot(('pix0', 'pixN'))
        v = a.rng.pick(['add', 'sub', 'getitem', 'rotate', 'to_sky',
                        'from_sky', 'separation', 'iter', 'copy', 'eq', 'xy',
                        'len'])
        if v in ('add', 'sub', 'separation', 'eq'):
            q = a.slot(('pix0', 'pixN'))
            if a.bad():
                a.fired = True
                q = a.rng.pick([(1, 2), 3.0, None])
            fn = {'add': lambda: p + q, 'sub': lambda: p - q,
                  'separation': lambda: p.separation(q),
                  'eq': lambda: (p == q, p == p)}[v]
        elif v == 'getitem':
            key = a.rng.pick([0, -1, slice(1, 3), slice(None, None, 2),
                              [0, 2], 99])
            fn = lambda: p[key]  # noqa
        elif v == 'rotate':
            c = a.slot(('pix0',))
            ang = self._angle_arg(a)
            fn = lambda: p.rotate(c, ang)  # noqa
        elif v == 'to_sky':
            w = self._wcs(a)
            okw = a.rng.pick([{}, {'origin': 1}, {'mode': 'wcs'},
                              {'origin': 1, 'mode': 'wcs'}])
            fn = lambda: p.to_sky(w, **okw)  # noqa
        elif v == 'from_sky':
            from regions import PixCoord
            sc = a.slot(('sky0', 'skyN'))
            w = self._wcs(a)
            okw = a.rng.pick([{}, {'origin': 1}, {'mode': 'wcs'}])
            fn = lambda: PixCoord.from_sky(sc, w, **okw)  # noqa
        elif v == 'iter':
            def fn():
                it = iter(p)
                return [next(it) for _ in range(2)]
        elif v == 'copy':
            fn = lambda: p.copy()  # noqa
        elif v == 'xy':
            fn = lambda: (p.xy, p.isscalar, repr(p))  # noqa
        else:
            fn = lambda: len(p)  # noqa
        return fn, f'PixCoord.{v}', None

    def _ser_kwargs(self, a, fmt, target):
        kw = {}
        r = a.rng
        if fmt == 'ds9' and r.chance(0.5):
            kw['precision'] = r.randint(1, 12)
        if fmt == 'crtf':
            c = r.randrange(4)
            if c == 0:
                kw['coordsys'] = 'image'
            elif c == 1:
                kw['coordsys'] = r.pick(['fk5', 'icrs', 'galactic', 'fk4',
                                         'supergalactic',
                                         'geocentrictrueecliptic', 'FK5',
                                         'IMAGE', 'Galactic'])
            if r.chance(0.3):
                kw['fmt'] = r.pick(['.4f', '.8f', '.2e', 'g'])
            if r.chance(0.3):
                kw['radunit'] = r.pick(['deg', 'arcsec', 'arcmin', 'rad',
                                        '', None])
        if a.twin_vary is not None:
            # the twin of the previous call: the same options except one
            tv = Stream(a.twin_vary, 'twin')
            if fmt == 'ds9':
                kw['precision'] = 2 if kw.get('precision') != 2 else 7
            elif fmt == 'crtf':
                which = tv.pick(['fmt', 'radunit', 'coordsys'])
                if which == 'fmt':
                    kw['fmt'] = '.2f' if kw.get('fmt') != '.2f' else '.5f'
                elif which == 'radunit':
                    kw['radunit'] = 'arcsec' \
                        if kw.get('radunit') != 'arcsec' else 'arcmin'
                else:
                    kw['coordsys'] = 'galactic' \
                        if kw.get('coordsys') != 'galactic' else 'fk5'
        if a.bad():
            a.fired = True
            kw.update(r.pick({
                'ds9': [{'precision': 'x'}, {'precision': -1}, {'nokw': 1}],
                'crtf': [{'coordsys': 'bogus'}, {'fmt': 'q'},
                         {'radunit': 'parsec'}, {'nokw': 1}],
                'fits': [{'nokw': 1}, {'precision': 3}]}[fmt]))
        return kw

    def op_serialize(self, a):
        target = a.slot(REG + ('regions',))
        fmt = a.rng.pick(['ds9', 'ds9', 'crtf', 'fits'])
        kw = a.track('options', self._ser_kwargs(a, fmt, target))
        f = fmt
        if a.bad() and a.rng.chance(0.3):
            f = a.rng.pick([None, 'DS9', 'bogus'])
        if a.rng.chance(0.25):
            return (lambda: Twice(target.serialize(format=f, **kw),
                                  target.serialize(format=f, **kw))), \
                f'{_n(target)}.serialize({f!r},{kw}) twice', None
        if a.rng.chance(0.3):
            return (lambda: target.serialize(f, **kw)), \
                f'{_n(target)}.serialize({f!r},{kw}) positional', None
        return (lambda: target.serialize(format=f, **kw)), \
            f'{_n(target)}.serialize({f!r},{kw})', None

    def op_parse(self, a):
        from regions import Regions
        fmt = a.rng.pick(['ds9', 'ds9', 'crtf', 'fits'])
        data = a.slot(('table',) if fmt == 'fits' else ('text:' + fmt,))
        f = fmt
        if fmt != 'fits':
            # a fresh string object per call (an id()-keyed cache must not
            # be able to hide behind the pool keeping its texts alive)
            data = data[:1] + data[1:]
        if a.fault.get('kind') == 'parse_error' and fmt == 'fits':
            # a row part-way through the caller's table is bad (a copy of
            # the pool's table, tracked as an argument of this call)
            try:
                data = data.copy()
                k = a.rng.randrange(max(1, len(data)))
                if 'SHAPE' in data.colnames and len(data):
                    import warnings
                    bad = a.rng.pick(['bogus', 'pie', '!'])
                    col = [str(x) for x in data['SHAPE']]
                    col[k] = bad
                    with warnings.catch_warnings():
                        warnings.simplefilter('ignore')
                        data['SHAPE'] = col       # (a column wide enough)
                    a.fired = True
            except Exception:
                pass
            a.track('table', data)
        elif a.fault.get('kind') == 'parse_error' and fmt != 'fits':
            lines = data.split('\n')
            bad = bad_line(a.rng, fmt)
            c = a.rng.randrange(3)
            if c == 0:
                lines.append(bad)            # the failing line comes last
            else:
                lines.insert(a.rng.randint(1, max(1, len(lines) - 1)), bad)
            data = '\n'.join(lines)
            a.fired = True
        elif a.bad():
            a.fired = True
            c = a.rng.randrange(3)
            if c == 0:
                f = a.rng.pick([None, 'bogus', 'DS9'])
            elif c == 1:
                f = {'ds9': 'crtf', 'crtf': 'fits', 'fits': 'ds9'}[fmt]
            else:
                data = a.rng.pick([None, 5, b'bytes'])
        if fmt == 'crtf' and a.rng.chance(0.4):
            # the parser's tolerance option: with 'warn' / 'ignore' parsing
            # goes on after a bad line
            okw = a.track('options', {'errors': a.rng.pick(
                ['strict', 'warn', 'ignore', 'warn', 'ignore'])})
            return (lambda: Regions.parse(data, format=f, **okw)), \
                f'Regions.parse(<{fmt}>, {f!r}, {okw})', None
        if a.rng.chance(0.3):
            return (lambda: Regions.parse(data, f)), \
                f'Regions.parse(<{fmt}>, {f!r}) positional', None
        return (lambda: Regions.parse(data, format=f)), \
            f'Regions.parse(<{fmt}>, {f!r})', None

    def op_parse_serialize(self, a):
        """What a parser returns is an input like any other: serialise it,
        twice, in the same or another format (parsers attach private data to
        the regions they create; using it must not use it up)."""
        from regions import Regions
        fmt = a.rng.pick(['ds9', 'ds9', 'crtf', 'fits'])
        data = a.slot(('table',) if fmt == 'fits' else ('text:' + fmt,))
        if fmt != 'fits':
            data = data[:1] + data[1:]
            if a.rng.chance(0.5):
                # one line only (so that one unsupported line elsewhere in
                # the text cannot hide the others)
                lines = DS9_LINES if fmt == 'ds9' else CRTF_LINES
                head = '' if fmt == 'ds9' else '#CRTFv0\n'
                data = head + a.rng.pick(lines) + '\n'
        out = a.rng.pick([fmt, fmt, 'ds9', 'crtf', 'fits'])
        kw = a.track('options', self._ser_kwargs(a, out, None))

        def fn():
            regs = Regions.parse(data, format=fmt)
            return Twice([regs.serialize(format=out, **kw), regs],
                         [regs.serialize(format=out, **kw), regs])
        return fn, f'parse(<{fmt}>) then serialize({out!r},{kw}) twice', None

    def op_write_read(self, a):
        from regions import Regions
        target = a.slot(REG + ('regions',))
        fmt = a.rng.pick(['ds9', 'crtf', 'fits'])
        kw = self._ser_kwargs(a, fmt, target)
        ext = a.rng.pick({'ds9': ['.reg', '.ds9'], 'crtf': ['.crtf'],
                          'fits': ['.fits', '.fit']}[fmt])
        name = (f'w{a.r % 1000003}{"b" if a.repeat else ""}'
                f'{"t" if a.twin_vary is not None else ""}{ext}')
        explicit = a.rng.chance(0.5)
        over = a.rng.pick([None, True, False])
        shared = a.rng.chance(0.3)
        if shared:
            # a path that other calls of this history also use, under a name
            # that says nothing about the format: written with the format
            # given and overwrite=True, read back by content signature
            name = a.rng.pick(['shared1.dat', 'shared2'])
            explicit, over = True, True
        path = os.path.join(self.disk, name)
        if a.fault.get('kind') == 'os_fail' and not shared:
            a.fired = True
            if a.rng.chance(0.5):
                with open(path, 'wb') as fh:      # existing destination
                    fh.write(b'old content\n')
                over = a.rng.pick([None, False])
            else:
                path = os.path.join(self.disk, 'nodir', name)
        wkw = dict(kw)
        if explicit:
            wkw['format'] = fmt
        if over is not None:
            wkw['overwrite'] = over
        if fmt == 'fits' and a.rng.chance(0.4):
            wkw['header'] = {'EXTNAME': 'REGION', 'OBSERVER': 'verif',
                             'NUMBER': 7}
            c = a.rng.randrange(4)
            if c == 0:
                from astropy.io import fits
                wkw['header'] = fits.Header(list(wkw['header'].items()))
            elif c == 1:
                wkw['header'] = {'observer': 'verif', 'number': 7}
            elif c == 2:
                wkw['header'] = None
        a.track('options', wkw)

        def fn():
            target.write(path, **wkw)
            with open(path, 'rb') as fh:
                data = fh.read()
            back = Regions.read(path, format=None if shared else
                                (fmt if explicit else None))
            return [hashlib.sha1(data).hexdigest(), len(data), back]
        return fn, f'{_n(target)}.write+read({name},{sorted(wkw)})', None

    def op_shared_io(self, a):
        """Write to a path that other calls of this history also use, under a
        name that says nothing about the format (format given, overwrite=
        True), then read it back by content signature."""
        from regions import Regions
        target = a.slot(('pixreg', 'skyreg'))
        sky = 'Sky' in _n(target)
        fmt = a.rng.pick(['ds9', 'crtf'] if sky else ['ds9', 'fits', 'crtf'])
        kw = {}
        if fmt == 'crtf' and not sky:
            kw['coordsys'] = 'image'
        name = a.rng.pick(['shared1.dat', 'shared2'])
        path = os.path.join(self.disk, name)
        how = a.rng.pick(['plain', 'plain', 'pathlib', 'gz'])
        gzname = {'ds9': 'shared.reg.gz', 'crtf': 'shared.crtf.gz',
                  'fits': 'shared.fits.gz'}[fmt]

        def fn():
            import gzip
            import pathlib
            target.write(path, format=fmt, overwrite=True, **kw)
            with open(path, 'rb') as fh:
                data = fh.read()
            rpath = path
            if how == 'pathlib':
                rpath = pathlib.Path(path)
            elif how == 'gz':
                # a compressed copy under a name that later calls reuse
                rpath = os.path.join(self.disk, gzname)
                with open(rpath, 'wb') as fh:
                    fh.write(gzip.compress(data, mtime=0))
            return [hashlib.sha1(data).hexdigest(), len(data),
                    Regions.read(rpath)]
        return fn, f'{_n(target)}.write+read({name},shared,{fmt},{how})', None

    def op_read_data(self, a):
        import regions
        from regions import Regions
        fmt = a.rng.pick(['ds9', 'crtf', 'fits'])
        f = a.rng.pick({'ds9': DS9_FILES, 'crtf': CRTF_FILES,
                        'fits': FITS_FILES}[fmt])
        path = os.path.join(os.path.dirname(regions.__file__), 'io', fmt,
                            'tests', 'data', f)
        form = a.rng.pick([fmt, None])
        if a.fault.get('kind') == 'os_fail':
            a.fired = True
            c = a.rng.randrange(3)
            src = path
            path = os.path.join(
                self.disk, f'r{a.r % 1000003}{"b" if a.repeat else ""}_{f}')
            if c == 0:
                pass                                   # missing file
            else:
                with open(src, 'rb') as fh:
                    data = fh.read()
                cut = len(data) // 2 if c == 1 else 7
                with open(path, 'wb') as fh:
                    fh.write(data[:cut])               # truncated file
        elif a.rng.chance(0.25):
            # a file whose NAME says one format and whose CONTENT another
            # (a CASA file saved as *.reg ...), read without a format: which
            # identifier wins must not depend on what was identified before
            a.fired = False
            other = a.rng.pick([e for e in ('.reg', '.crtf', '.fits', '.ds9')
                                if e not in {'ds9': ('.reg', '.ds9'),
                                             'crtf': ('.crtf',),
                                             'fits': ('.fits',)}[fmt]])
            src = path
            path = os.path.join(
                self.disk,
                f'm{a.r % 1000003}{"b" if a.repeat else ""}{other}')
            with open(src, 'rb') as fh:
                data = fh.read()
            with open(path, 'wb') as fh:
                fh.write(data)
            form = None
            f = f'{f} as *{other}'
        if a.rng.chance(0.3):
            import pathlib
            path = pathlib.Path(path)
        okw = {}
        if fmt == 'crtf' and a.rng.chance(0.3):
            okw = a.track('options', {'errors': a.rng.pick(['warn',
                                                            'ignore'])})
        return (lambda: Regions.read(path, format=form, **okw)), \
            f'Regions.read({f},{form!r},{okw})', None

    def op_get_formats(self, a):
        from regions import Region, Regions
        cls = a.rng.pick([Region, Regions])
        return (lambda: cls.get_formats()), f'{cls.__name__}.get_formats', None

    def op_regions_ops(self, a):
        L = a.slot(('regions',))
        v = a.rng.pick(['slice', 'copy', 'len', 'str', 'getitem', 'iter'])
        if v == 'slice':
            sl = a.rng.pick([slice(0, 2), slice(1, None), slice(None, None, 2),
                             slice(None, None, -1)])
            fn = lambda: L[sl]  # noqa
        elif v == 'copy':
            fn = lambda: L.copy()  # noqa
        elif v == 'len':
            fn = lambda: len(L)  # noqa
        elif v == 'str':
            fn = lambda: (_ADDR.sub('0x', str(L)), _ADDR.sub('0x', repr(L)))  # noqa
        elif v == 'getitem':
            i = a.rng.pick([0, -1, 99])
            fn = lambda: L[i]  # noqa
        else:
            fn = lambda: [r for r in L]  # noqa
        return fn, f'Regions.{v}', None

    # ---- the history (S)
    def run_history(self):
        self.setup_disk()
        events = []
        violations = []
        known = []
        stats = {'ops': {}, 'outcomes': {}, 'fault_planned': {},
                 'fault_fired': {}, 'skipped': 0, 'i1_checks': 0,
                 'i3_pairs': 0, 'stored': 0, 'raise_sites': [],
                 'p1_global_changes': []}
        states = set()
        self._viol = violations
        self._known = known
        try:
            for i in range(len(self.pool)):
                self.build_slot(i)
            g0 = global_state()
            sel = Stream(self.plan['seed'], 'i1')
            prev = None
            for j, op in enumerate(self.plan['ops']):
                before_disk = self.disk_canon()
                rec = self.run_op(op)
                rec['j'] = j
                events.append(rec)
                if rec.get('skip'):
                    stats['skipped'] += 1
                    prev = None
                    continue
                name = op['op']
                stats['ops'][name] = stats['ops'].get(name, 0) + 1
                oc = rec['outcome'][0] + (':' + rec['outcome'][1]
                                          if len(rec['outcome']) > 1 else '')
                stats['outcomes'][oc] = stats['outcomes'].get(oc, 0) + 1
                fk = rec['fault']
                if fk:
                    stats['fault_planned'][fk] = \
                        stats['fault_planned'].get(fk, 0) + 1
                    if rec['fired']:
                        stats['fault_fired'][fk] = \
                            stats['fault_fired'].get(fk, 0) + 1
                if 'stored' in rec:
                    stats['stored'] += 1
                states.add((name, rec['desc'].split('(')[0].split('.')[0],
                            fk or '-', oc))
                if prev is not None:
                    states.add(('pair', prev, name))
                prev = name
                # I1: arguments + a seeded third of the rest + the disk
                if rec.get('extras_changed'):
                    self.violation(
                        'I1-mutation', j, rec,
                        f'after {rec["desc"]} (outcome {rec["outcome"]}) an '
                        f'argument built for this call changed: '
                        + '; '.join(rec['extras_changed'])[:400],
                        cls='argument')
                check = set(rec['resolved'])
                for i in range(len(self.pool)):
                    if sel.random() < 0.34:
                        check.add(i)
                self.check_pool(j, rec, check, stats)
                if name not in ('write_read', 'read_data', 'shared_io',
                                'cell'):
                    after_disk = self.disk_canon()
                    if after_disk != before_disk:
                        self.violation('I1-disk', j, rec,
                                       f'{rec["desc"]} changed the run disk: '
                                       f'{before_disk} -> {after_disk}')
                else:
                    after_disk = self.disk_canon()
                    b = dict(map(tuple, before_disk))
                    changed = [n for n, h in after_disk
                               if n in b and b[n] != h] + \
                        [n for n in b if n not in dict(map(tuple, after_disk))]
                    mine = rec['desc']
                    changed = [n for n in changed if f'({n},' not in mine
                               and not (name == 'shared_io'
                                        and n.startswith('shared.'))]
                    if changed:
                        self.violation('I1-disk', j, rec,
                                       f'{rec["desc"]} changed other files '
                                       f'on the run disk: {changed}')
                # I3: repeat of the previous op
                if op.get('repeat') and j > 0 and not events[j - 1].get('skip'):
                    stats['i3_pairs'] += 1
                    p = events[j - 1]
                    if p['outcome'][0] != 'abort' and \
                            rec['outcome'][0] != 'abort' and \
                            p['digest'] != rec['digest'] and \
                            p['resolved'] == rec['resolved']:
                        self.violation(
                            'I3-repeat', j, rec, f'{rec["desc"]} issued twice '
                            f'in a row gave different outcomes: '
                            f'{p["outcome"]} / {rec["outcome"]} (digests '
                            f'{p["digest"]} / {rec["digest"]})')
            # end of history: whole pool
            self.check_pool(len(self.plan['ops']), {'desc': 'end of history',
                                                    'op': 'end', 'fault': None},
                            set(range(len(self.pool))), stats)
            # I4 canary battery
            exp = self.ctx.get('battery')
            if exp:
                got = battery_digests(self.ctx)
                for k, ((nm, d0), (_, d1)) in enumerate(zip(exp, got)):
                    if d0 != d1:
                        mine = battery_digests(self.ctx, only=k)
                        self.violation(
                            'I4-canary', len(self.plan['ops']),
                            {'desc': nm, 'op': 'battery', 'fault': None},
                            f'canary {nm!r} gives another outcome after this '
                            f'history than in a pristine process '
                            f'({d0} -> {d1})')
                        self._viol_or_known_last()['canary'] = [k, mine]
                        break
            g1 = global_state()
            if g1 != g0:
                d = diff(g0, g1)
                stats['p1_global_changes'].append(str(d)[:160])
        finally:
            self.teardown()
        derivations = {}
        for e in events:
            if 'stored' in e:
                derivations[e['stored']] = {'op_index': e['j'],
                                            'resolved': e['resolved']}
        return {'seed': self.plan['seed'], 'events': events,
                'violations': violations, 'known_hits': known, 'stats': stats,
                'states': sorted(states), 'derivations': derivations,
                'schedule_digest': fpc([[(e.get('op'), e.get('resolved'),
                                          (e.get('outcome') or [])[:2],
                                          e.get('fault'),
                                          e.get('fired'), e.get('stored'))
                                         for e in events]]),
                'digest': fpc([[(e.get('digest'), e.get('resolved'))
                                for e in events],
                               [[v['oracle'], v['step'], v['op']]
                                for v in violations + known]])}

    def check_pool(self, j, rec, indices, stats):
        for i in sorted(indices):
            s = self.pool[i]
            if 'obj' not in s:
                continue
            stats['i1_checks'] += 1
            c = canon(s['obj'])
            if c != s['canon0']:
                self.violation(
                    'I1-mutation', j, rec,
                    f'after {rec["desc"]} (outcome {rec.get("outcome")}) pool '
                    f'slot {i} ({s["kind"]}, {_n(s["obj"])}) differs from '
                    f'its value at creation: {diff(s["canon0"], c)}',
                    cls=_n(s['obj']))
                s['canon0'] = c          # report each change once

    def _viol_or_known_last(self):
        return (self._viol or self._known)[-1] if (self._viol or self._known) \
            else {}

    def violation(self, oracle, j, rec, detail, cls=''):
        sig = {'property': PROPERTY, 'oracle': oracle, 'op': rec.get('op', ''),
               'cls': cls, 'detail': detail, 'desc': rec.get('desc', '')}
        v = {'oracle': oracle, 'step': j, 'op': rec.get('op', ''),
             'cls': cls, 'desc': rec.get('desc', ''), 'detail': detail[:700],
             'fault': rec.get('fault')}
        from sim.findings import match_known
        k = match_known(self.ctx.get('findings', []), sig)
        if k:
            self._known.append({'id': k, **v})
        else:
            self._viol.append(v)


def _n(o):
    return type(o).__name__


def result_kind(res, op):
    from astropy.coordinates import SkyCoord
    from astropy.table import Table
    from regions import (PixCoord, PixelRegion, RegionBoundingBox, RegionMask,
                         Regions, SkyRegion)
    if isinstance(res, PixelRegion):
        return 'pixcomp' if _n(res).startswith('Compound') else 'pixreg'
    if isinstance(res, SkyRegion):
        return 'skycomp' if _n(res).startswith('Compound') else 'skyreg'
    if isinstance(res, Regions):
        return 'regions' if len(res) else None
    if isinstance(res, RegionMask):
        return 'mask'
    if isinstance(res, RegionBoundingBox):
        return 'bbox'
    if isinstance(res, PixCoord):
        return 'pix0' if res.isscalar else 'pixN'
    if isinstance(res, SkyCoord):
        return 'sky0' if res.isscalar else 'skyN'
    if isinstance(res, Table) and len(res):
        return 'table'
    if isinstance(res, str) and op['op'] == 'serialize' and res:
        if res.startswith('#CRTF'):
            return 'text:crtf'
        if res.startswith('# Region file format: DS9'):
            return 'text:ds9'
    return None


class LineAbort:
    """Amplifier: raise InjectedAbort at the k-th line event executed in a
    file below the regions package (never inside third-party code)."""

    def __init__(self, k):
        self.k = k
        self.count = 0
        self.fired = False
        import regions
        self.prefix = os.path.dirname(os.path.realpath(regions.__file__)) + os.sep

    def _local(self, frame, event, arg):
        if event == 'line':
            self.count += 1
            if self.count == self.k:
                self.fired = True
                raise InjectedAbort()
        return self._local

    def _global(self, frame, event, arg):
        fn = frame.f_code.co_filename
        if fn.startswith(self.prefix) and '/tests/' not in fn:
            return self._local
        return None

    def start(self):
        sys.settrace(self._global)

    def stop(self):
        sys.settrace(None)


# ------------------------------------------------------ global-state probe
def _iter_state(it, depth=0):
    import warnings
    if depth > 6:
        return 'deep'
    try:
        with warnings.catch_warnings():
            warnings.simplefilter('ignore')
            red = it.__reduce__()
    except Exception:
        return type(it).__name__
    out = [getattr(red[0], '__name__', str(red[0]))]
    for part in red[1:]:
        if isinstance(part, tuple):
            out.append([_iter_state(x, depth + 1) if hasattr(x, '__next__')
                        else repr(x)[:60] for x in part])
        else:
            out.append(repr(part)[:60])
    return out


def global_state():
    """Fingerprint of module globals / class attributes of regions.* (probe
    P1; never consumes an iterator)."""
    out = []
    for mname in sorted(sys.modules):
        if not (mname == 'regions' or mname.startswith('regions.')) or \
                '.tests' in mname:
            continue
        mod = sys.modules[mname]
        for name in sorted(vars(mod)):
            if name.startswith('__'):
                continue
            v = vars(mod)[name]
            if isinstance(v, (dict, list, tuple, str, int, float, set)):
                out.append([mname, name, _gcanon(v)])
            elif isinstance(v, type) and v.__module__ == mname:
                for an in sorted(vars(v)):
                    av = vars(v)[an]
                    if isinstance(av, (dict, list, tuple, set)) and \
                            not an.startswith('__'):
                        out.append([mname, name + '.' + an, _gcanon(av)])
    import warnings
    out.append(['warnings', 'filters', len(warnings.filters)])
    out.append(['numpy', 'geterr', sorted(np.geterr().items())])
    out.append(['os', 'cwd', os.getcwd()])
    return out


def _gcanon(v, depth=0):
    if depth > 5:
        return 'deep'
    if hasattr(v, '__next__'):
        return ['iter', _iter_state(v)]
    if isinstance(v, dict):
        return ['dict', [[_gcanon(k, depth + 1), _gcanon(x, depth + 1)]
                         for k, x in v.items()]]
    if isinstance(v, (list, tuple)):
        return [type(v).__name__, [_gcanon(x, depth + 1) for x in v]]
    if isinstance(v, (set, frozenset)):
        return ['set', sorted(repr(x) for x in v)]
    if isinstance(v, (str, int, float, bool, type(None))):
        return repr(v)
    if isinstance(v, type) or callable(v):
        return getattr(v, '__qualname__', type(v).__name__)
    return type(v).__name__


# ------------------------------------------------------- canary battery
def battery_plan():
    """A fixed pool and a fixed list of calls touching every parser notation,
    every serializer and every conversion once."""
    rng = Stream(424242, 'battery')
    pool = []

    def add(kind, recipe):
        pool.append({'kind': kind, 'recipe': recipe})
        return len(pool) - 1
    ops = []
    w = add('wcs', gen.WCS_MENU[0])
    p0 = add('pix0', {'t': 'pix', 'x': 4.25, 'y': 10.0})
    s0 = add('sky0', {'t': 'sky', 'lon': 10.0, 'lat': 20.0, 'frame': 'icrs'})
    img = add('image', {'t': 'image', 'shape': [40, 50], 'kind': 'float',
                        'seed': 1})

    def op(name, forced, r=1, **kw):
        ops.append(dict({'op': name, 's': [], 'r': r, 'forced': forced}, **kw))
    # first of all (before another entry can touch them): the process-wide
    # settings the history leaves behind
    op('globals_fixed', [p0])
    # ... then the entries that depend on what was identified / parsed last
    # (the battery's own later entries would overwrite that)
    t = add('text:crtf', {'t': 'datafile',
                          'path': 'io/crtf/tests/data/CRTFgeneral.crtf'})
    op('mislabel_fixed', [t], ext='.reg')
    t = add('text:ds9', {'t': 'datafile',
                         'path': 'io/ds9/tests/data/ds9.fk5.reg'})
    op('mislabel_fixed', [t], ext='.crtf')
    op('mislabel_fixed', [t], ext='.fits')
    for k, line in enumerate(DS9_LINES):
        t = add('text:ds9', {'t': 'lit', 'v':
                             '# Region file format: DS9\n' + line + '\n'})
        op('parse_fixed', [t], fmt='ds9')
    for f in DS9_FILES[:6]:
        t = add('text:ds9', {'t': 'datafile',
                             'path': 'io/ds9/tests/data/' + f})
        op('parse_fixed', [t], fmt='ds9')
    for line in CRTF_LINES:
        t = add('text:crtf', {'t': 'lit', 'v': '#CRTFv0\n' + line + '\n'})
        op('parse_fixed', [t], fmt='crtf')
    for f in CRTF_FILES[:3]:
        t = add('text:crtf', {'t': 'datafile',
                              'path': 'io/crtf/tests/data/' + f})
        op('parse_fixed', [t], fmt='crtf')
    for cls in sorted(gen.ALL_CLASSES):
        toks = gen.draw_tokens(rng, cls, small=True)
        rec = gen.region_from_tokens(cls, toks, gen.meta_items(rng),
                                     gen.visual_items(rng))
        kind = 'skyreg' if 'Sky' in cls else 'pixreg'
        i = add(kind, rec)
        for fmt in ('ds9', 'crtf', 'fits'):
            op('serialize_fixed', [i], fmt=fmt, kw={})
        op('serialize_fixed', [i], fmt='ds9', kw={'precision': 3})
        op('serialize_fixed', [i], fmt='crtf', kw={'coordsys': 'image'})
        if kind == 'pixreg':
            op('convert_fixed', [i, w, p0, img], what='pix')
            rich = gen.region_from_tokens(
                cls, toks, [['text', 'lbl']],
                [['linewidth', 3], ['color', 'red'], ['fontname', 'times'],
                 ['fontsize', 12], ['fontweight', 'bold'],
                 ['fontstyle', 'italic'], ['linestyle', 'dashed']])
            op('artist_fixed', [add('pixreg', rich)])
        else:
            op('convert_fixed', [i, w, s0], what='sky')
    t = add('table', {'t': 'serialized', 'fmt': 'fits', 'regions': [
        gen.region_from_tokens(c, gen.draw_tokens(rng, c, small=True))
        for c in gen.FITS_CLASSES]})
    op('parse_fixed', [t], fmt='fits')
    t2 = add('table', {'t': 'table_variant', 'variant': 'other_shapes',
                       'regions': [gen.region_from_tokens(
                           'RectanglePixelRegion',
                           {'center': 3, 'width': 2, 'height': 4, 'angle': 1})]})
    op('parse_fixed', [t2], fmt='fits')
    # lists of several regions (the DS9 serialiser hoists what they share
    # into a ``global`` line), through serialize and through the file layer
    shared_meta = [['text', 'lbl']]
    shared_vis = [['color', 'red'], ['linewidth', 2]]
    for sky in (False, True):
        classes = ['CircleSkyRegion', 'EllipseSkyRegion',
                   'PolygonSkyRegion'] \
            if sky else ['CirclePixelRegion', 'EllipsePixelRegion',
                         'PolygonPixelRegion']
        lst = add('regions', {'t': 'regions', 'v': [
            gen.region_from_tokens(c, gen.draw_tokens(rng, c, small=True),
                                   shared_meta, shared_vis)
            for c in classes]})
        for fmt in ('ds9', 'crtf') + (() if sky else ('fits',)):
            kw = {'coordsys': 'image'} if (fmt == 'crtf' and not sky) else {}
            op('serialize_fixed', [lst], fmt=fmt, kw=kw)
            op('io_fixed', [lst], fmt=fmt, kw=kw)
    # non-default option values of the serialisers and parsers
    for cls in ('CircleSkyRegion', 'EllipseSkyRegion'):
        i = add('skyreg', gen.region_from_tokens(
            cls, gen.draw_tokens(rng, cls, small=True), gen.meta_items(rng),
            gen.visual_items(rng)))
        for kw in ({'fmt': '.3f'}, {'radunit': 'arcsec'},
                   {'coordsys': 'galactic'}, {'coordsys': 'fk4',
                                              'radunit': 'arcmin'}):
            op('serialize_fixed', [i], fmt='crtf', kw=kw)
        for p in (1, 12):
            op('serialize_fixed', [i], fmt='ds9', kw={'precision': p})
    for err in ('warn', 'ignore'):
        t = add('text:crtf', {'t': 'lit', 'v': '#CRTFv0\n' + CRTF_LINES[0]
                              + '\n' + CRTF_BAD_LINES[2] + '\n'
                              + CRTF_LINES[2] + '\n'})
        op('parse_fixed', [t], fmt='crtf', kw={'errors': err})
    # compounds, list slicing, membership, overlap slices, PixCoord <-> sky
    cp = add('pixcomp', gen.compound_region(rng, sky=False, depth=1))
    cs = add('skycomp', gen.compound_region(rng, sky=True, depth=1))
    op('compound_fixed', [cp, cs, w, p0, s0])
    c1 = add('pixreg', gen.region_from_tokens(
        'EllipsePixelRegion', gen.draw_tokens(rng, 'EllipsePixelRegion',
                                              small=True)))
    c2 = add('pixreg', gen.region_from_tokens(
        'RectanglePixelRegion', gen.draw_tokens(rng, 'RectanglePixelRegion',
                                                small=True)))
    op('misc_fixed', [c1, c2, p0, img])
    b = add('bbox', {'t': 'bbox', 'v': [1, 10, 2, 8]})
    op('bbox_fixed', [b])
    op('defaults_fixed', [p0])
    op('formats_fixed', [])
    return {'engine': ENGINE, 'seed': 424242, 'cfg': {'warn': 'default',
                                                      'encoding': 'utf-8'},
            'pool': pool, 'ops': ops}


def _battery_ops(ex):
    from regions import Region, Regions

    def parse_fixed(a, op):
        data = a.slot(('x',))
        return lambda: Regions.parse(data, format=op['fmt'],
                                     **op.get('kw', {}))

    def serialize_fixed(a, op):
        r = a.slot(('x',))
        return lambda: r.serialize(format=op['fmt'], **op['kw'])

    def convert_fixed(a, op):
        r = a.slot(('x',))
        w = a.slot(('x',))
        if op['what'] == 'pix':
            p = a.slot(('x',))
            img = a.slot(('x',))

            def fn():
                out = [r.to_sky(w), r.contains(p), r.bounding_box]
                m = r.to_mask(mode='center')
                out += [m, m.cutout(img)]
                try:
                    out.append(r.as_artist())
                except Exception as exc:
                    out.append(repr(exc)[:80])
                try:
                    out.append(r.to_mask(mode='exact'))
                except Exception as exc:
                    out.append(repr(exc)[:80])
                return out
            return fn
        s = a.slot(('x',))
        return lambda: [r.to_pixel(w), r.contains(s, w)]

    def artist_fixed(a, op):
        r = a.slot(('x',))

        def fn():
            try:
                return [r.as_artist(), r.as_artist(origin=(1, 2))]
            except Exception as exc:
                return repr(exc)[:80]
        return fn

    def io_fixed(a, op):
        r = a.slot(('x',))
        ext = {'ds9': '.reg', 'crtf': '.crtf', 'fits': '.fits'}[op['fmt']]
        path = os.path.join(ex.disk, 'battery' + ext)

        def fn():
            r.write(path, overwrite=True, **op['kw'])
            with open(path, 'rb') as fh:
                data = fh.read()
            return [hashlib.sha1(data).hexdigest(), Regions.read(path)]
        return fn

    def mislabel_fixed(a, op):
        text = a.slot(('x',))
        path = os.path.join(ex.disk, 'mislabelled' + op['ext'])

        def fn():
            with open(path, 'w') as fh:
                fh.write(text)
            return Regions.read(path)
        return fn

    def compound_fixed(a, op):
        cp = a.slot(('x',))
        cs = a.slot(('x',))
        w = a.slot(('x',))
        p = a.slot(('x',))
        s = a.slot(('x',))

        def fn():
            from regions import PixCoord, Regions as R_

            def t(f):
                try:
                    return f()
                except Exception as exc:
                    return ['raised', type(exc).__name__]
            lst = R_([cp.region1, cp.region2, cp])
            return [t(lambda: cp.contains(p)), t(lambda: p in cp),
                    t(lambda: cp.bounding_box),
                    t(lambda: cp.to_mask(mode='center')),
                    t(lambda: cs.contains(s, w)), t(lambda: cs.to_pixel(w)),
                    t(lambda: cp.to_sky(w)), lst[0:2], lst[::-1], len(lst),
                    lst[-1] is cp,
                    t(lambda: cp.bounding_box.get_overlap_slices((40, 50))),
                    t(lambda: p.to_sky(w)),
                    t(lambda: PixCoord.from_sky(s, w)),
                    t(lambda: p.to_sky(w, origin=1, mode='wcs'))]
        return fn

    def misc_fixed(a, op):
        import astropy.units as u
        r1 = a.slot(('x',))
        r2 = a.slot(('x',))
        p = a.slot(('x',))
        img = a.slot(('x',))

        def fn():
            m = r1.to_mask(mode='subpixels', subpixels=3)
            return [r1.rotate(p, 30 * u.deg), r2.rotate(p, -725 * u.deg),
                    r1.copy(), r1 & r2, (r1 | r2).contains(p), r1 == r2,
                    r1 == r1.copy(), m.multiply(img), m.get_values(img),
                    p + p, p.rotate(p, 10 * u.deg), r2.corners,
                    r2.to_polygon(), r1.area, repr(r1), str(r2)]
        return fn

    def bbox_fixed(a, op):
        b = a.slot(('x',))
        return lambda: [b.to_region(), b.as_artist(), b.shape, b.extent]

    def defaults_fixed(a, op):
        # regions built with every optional argument left at its default
        import regions as R
        p = a.slot(('x',))
        return lambda: [R.RectanglePixelRegion(p, 3, 2),
                        R.EllipsePixelRegion(p, 3, 2),
                        R.RegularPolygonPixelRegion(p, 5, 3),
                        R.CirclePixelRegion(p, 2).meta,
                        R.CirclePixelRegion(p, 2).visual,
                        R.PolygonPixelRegion(R.PixCoord([1, 5, 3],
                                                        [1, 1, 6])).origin]

    def globals_fixed(a, op):
        # process-wide settings of the libraries underneath, which a call
        # into regions has no business changing (and through which one call
        # could reach the next), and a plain text artist that shows them
        p = a.slot(('x',))

        def fn():
            import decimal
            import locale
            import matplotlib as mpl
            import astropy.units as u
            import regions as R
            t = R.TextPixelRegion(p, 'canary').as_artist()
            return [sorted((k, repr(v)) for k, v in mpl.rcParams.items()),
                    sorted((k, repr(v)) for k, v in
                           np.get_printoptions().items()),
                    sorted(np.geterr().items()), os.getcwd(),
                    sys.getrecursionlimit(), locale.setlocale(locale.LC_ALL),
                    repr(decimal.getcontext()),
                    len(u.get_current_unit_registry().equivalencies),
                    t, t.get_usetex(), t.get_fontfamily()]
        return fn

    def formats_fixed(a, op):
        return lambda: [Region.get_formats(), Regions.get_formats()]
    return locals()


def battery_digests(ctx, only=None):
    """Evaluate the canary battery in the current process (``only``: return
    the canonical outcome of that single entry instead of digests)."""
    plan = ctx.get('battery_plan') or battery_plan()
    ex = Exec(plan, ctx)
    ex.setup_disk()
    table = _battery_ops(ex)
    out = []
    try:
        for i, op in enumerate(plan['ops']):
            if only is not None and i != only:
                continue
            a = Arg(ex, op, forced=op['forced'])
            ex.derivations = {}
            wrec = []
            try:
                fn = table[op['op']](a, op)
                with warnings_mode('default', wrec):
                    res = fn()
                o = ['ok', canon(res)]
            except Exception as exc:
                o = ['raise', type(exc).__name__, clean(exc)]
            if only is not None:
                return [o, wrec]
            out.append([f'{i}:{op["op"]}:{op.get("fmt", op.get("what", ""))}',
                        fpc([o, wrec])])
    finally:
        ex.teardown()
    return out


# ----------------------------------------------------- reference child
def reference_eval(arg):
    """R: evaluate ONE op of a plan alone (plus the derivation chain of its
    inputs) in a process without call history."""
    plan, derivations, j, resolved, ctx = arg
    ex = Exec(plan, ctx, single=True)
    ex.derivations = {int(k): v for k, v in derivations.items()}
    ex.setup_disk()
    try:
        try:
            rec = ex.run_op(plan['ops'][j], forced=resolved,
                            want_canon=arg[4].get('want_canon', False))
        except DerivationMismatch as exc:
            rec = {'derivation_mismatch': {
                'slot': exc.slot, 'op_index': exc.op_index,
                'pristine_outcome': (exc.rec or {}).get('outcome'),
                'desc': (exc.rec or {}).get('desc')}}
    finally:
        ex.teardown()
    return rec


# ------------------------------------------------------ plan generation
OPS = [('contains', 3), ('in', 1), ('sky_contains', 2), ('area_bbox', 2),
       ('to_mask', 3), ('mask_apply', 4.5), ('bbox_ops', 1.5), ('to_sky', 3),
       ('to_pixel', 3), ('rotate', 2), ('copy', 2), ('combine', 1.5),
       ('as_artist', 2.5), ('plot', 1.5), ('selector', 1), ('mpl_kwargs', 1),
       ('eq', 1.5),
       ('repr', 1),
       ('polygon', 0.7), ('pixcoord', 2), ('serialize', 6), ('parse', 5),
       ('parse_serialize', 3),
       ('write_read', 3), ('shared_io', 2.5), ('read_data', 1.5),
       ('get_formats', 0.5),
       ('regions_ops', 1.5)]
FAULT_OPS = {
    'bad_arg': ['contains', 'in', 'to_mask', 'mask_apply', 'rotate',
                'combine', 'as_artist', 'plot', 'selector', 'mpl_kwargs',
                'pixcoord',
                'serialize', 'parse_serialize',
                'parse', 'to_sky', 'to_pixel', 'sky_contains', 'write_read'],
    'collab_fail': ['to_sky', 'to_pixel', 'sky_contains', 'pixcoord'],
    'os_fail': ['write_read', 'read_data'],
    'parse_error': ['parse'],
    'line_abort': [k for k, _ in OPS if k not in ('get_formats',)],
}
NSLOTS = 4
_HIST_CELLS = []


def hist_cells():
    if not _HIST_CELLS:
        common = ['ds9', 'crtf', 'fits', 'write_ds9', 'write_crtf',
                  'write_fits', 'convert', 'contains', 'copy', 'mpl']
        for cls in sorted(gen.ALL_CLASSES):
            kinds = common + ([] if 'Sky' in cls else
                              ['artist', 'mask', 'rotate'])
            for k in kinds:
                _HIST_CELLS.append((cls, k))
    return _HIST_CELLS

TWIN_OPS = ('serialize', 'write_read', 'shared_io', 'to_mask', 'as_artist',
            'plot', 'to_sky', 'to_pixel', 'mask_apply', 'rotate')


def gen_plan(seed, index, tier='quick'):
    cfg_rng = Stream(seed, 'config')
    pool_rng = Stream(seed, 'pool')
    ops_rng = Stream(seed, 'ops')
    f_rng = Stream(seed, 'faults')
    cfg = {'warn': cfg_rng.weighted([('default', 3), ('error', 1)]),
           'encoding': cfg_rng.weighted([('utf-8', 4), ('latin-1', 1)])}
    enabled_ops = [(k, w) for k, w in OPS if cfg_rng.chance(0.85)]
    if len(enabled_ops) < 5:
        enabled_ops = list(OPS)
    kinds = ['bad_arg', 'collab_fail', 'os_fail', 'parse_error', 'line_abort']
    enabled_faults = [k for k in kinds if cfg_rng.chance(0.6)]
    rate = cfg_rng.pick([0.0, 0.15, 0.3, 0.45])
    n = cfg_rng.randint(3, 30)
    ops = []
    while len(ops) < n:
        k = ops_rng.weighted(enabled_ops)
        op = {'op': k, 's': [ops_rng.randrange(1 << 16) for _ in range(NSLOTS)],
              'r': ops_rng.getrandbits(48), 'store': ops_rng.chance(0.5)}
        if enabled_faults and f_rng.chance(rate):
            # (among the kinds that apply to this call, so that the rarer
            # kinds - failing collaborators, OS errors - are not drowned)
            fits_ = [x for x in enabled_faults if k in FAULT_OPS[x]]
            fk = f_rng.pick(fits_) if fits_ else f_rng.pick(enabled_faults)
            if k in FAULT_OPS[fk]:
                op['fault'] = {'kind': fk}
                if fk == 'collab_fail':
                    # mostly early, sometimes deep inside the conversion
                    # (second operand of a compound, a later vertex ...)
                    op['fault']['n'] = f_rng.randint(1, 4) \
                        if f_rng.chance(0.6) else f_rng.randint(5, 14)
                    op['fault']['exc'] = f_rng.pick(['noconv', 'value',
                                                     'nan'])
                if fk == 'line_abort':
                    op['fault']['k'] = max(1, int(10 ** f_rng.uniform(0, 3.6)))
        ops.append(op)
        if k in TWIN_OPS and ops_rng.chance(0.2) and len(ops) < n and \
                'fault' not in op:
            # the same receiver (same slot hints) called again with other
            # option values (another sub-seed): what the first call did to
            # the object's private state must not show in the second
            tw = {'op': k, 's': list(op['s']), 'r': ops_rng.getrandbits(48),
                  'store': False, 'twin': True}
            if k in ('serialize', 'write_read'):
                # the same call with exactly one option changed
                tw['r'] = op['r']
                tw['twin_vary'] = ops_rng.getrandbits(32)
            ops.append(tw)
        elif ops_rng.chance(0.2) and len(ops) < n and \
                op.get('fault', {}).get('kind') != 'line_abort':
            op['store'] = False
            rep = dict(op)
            rep['repeat'] = True
            rep['store'] = False
            ops.append(rep)
    # the batch enumerates class x kind of call (see op_cell)
    spots = [i for i in range(len(ops) + 1)
             if i == len(ops) or not (ops[i].get('repeat')
                                      or ops[i].get('twin'))]
    ops.insert(cfg_rng.pick(spots), {
        'op': 'cell', 's': [ops_rng.randrange(1 << 16)
                            for _ in range(NSLOTS)],
        'r': ops_rng.getrandbits(48), 'store': False, 'cell': index})
    return {'engine': ENGINE, 'property': PROPERTY, 'seed': seed,
            'index': index, 'cfg': cfg, 'pool': gen_pool(pool_rng),
            'ops': ops}


def execute(plan, ctx):
    return Exec(plan, ctx).run_history()


def strip_amplifiers(plan):
    p = copy.deepcopy(plan)
    for op in p['ops']:
        if op.get('fault', {}).get('kind') == 'line_abort':
            del op['fault']
    return p


def has_amplifier(plan):
    return any(op.get('fault', {}).get('kind') == 'line_abort'
               for op in plan['ops'])


# ------------------------------------------------------ driver interface
COMPONENTS = {
    'real': ['regions (working tree, incl. compiled _geometry kernels)',
             'numpy', 'astropy (units, coordinates, wcs, table, io.fits)',
             'matplotlib (patches, lines, text)', 'kernel tmpfs'],
    'modelled_at_seam': ['warnings filter', 'ambient locale encoding'],
    'stub': ['FaultyWCS: a real astropy WCS (subclass instance) whose n-th '
             'transformation call (1st-14th) raises NoConvergence/ValueError '
             'or answers NaN'],
}
RULE = ('seeded histories of 3-30 public read-only/constructive calls over a '
        'pool of ~90 objects (+ up to 14 derived results); per run a random '
        'subset of op kinds and fault kinds is enabled and the fault rate is '
        'drawn from {0, .15, .3, .45}. A state is (op kind, receiver class, '
        'fault kind, outcome class) or an ordered pair of consecutive op '
        'kinds; a state is non-trivial if it carries a fault, raised, or is a '
        'pair. distinct_nontrivial counts distinct such tuples.')
ASSUMPTIONS = [
    'a call that completes by raising (bad argument, failing WCS, OS error, '
    'escalated warning, malformed text) is a library call: inputs must be '
    'unchanged after it (R2); line-level aborts are an amplifier only',
    'the reference for "the same call run first" is a fork of a process '
    'that has imported the library and never called it, with the same '
    'PYTHONHASHSEED (R3); the battery is additionally compared with a true '
    'fresh interpreter once per batch',
    'fingerprints of SkyCoord/WCS ignore astropy caches',
]


def preload():
    import regions  # noqa
    # every submodule (a one-time import-time warning of a lazily imported
    # module must not distinguish a history from a pristine process)
    import importlib
    import pkgutil
    for mi in pkgutil.walk_packages(regions.__path__, 'regions.'):
        if '.tests' in mi.name or mi.name.endswith('conftest'):
            continue
        try:
            importlib.import_module(mi.name)
        except Exception:
            pass
    import matplotlib.pyplot  # noqa  (plot() imports it)
    import matplotlib.widgets  # noqa
    import astropy.io.fits  # noqa
    import astropy.table  # noqa
    import astropy.wcs  # noqa
    import matplotlib
    matplotlib.use('Agg')
    import matplotlib.lines  # noqa
    import matplotlib.patches  # noqa
    import matplotlib.path  # noqa
    import matplotlib.text  # noqa
    import astropy.units as u
    from astropy.coordinates import SkyCoord
    # warm up astropy's lazily built transformation graph (third-party
    # state, not regions'): every fork then starts from the same image
    SkyCoord(1 * u.deg, 2 * u.deg, frame='fk5').transform_to('galactic')
    SkyCoord(1 * u.deg, 2 * u.deg, frame='fk4').transform_to('icrs')
    SkyCoord(1 * u.deg, 2 * u.deg,
             frame='icrs').transform_to('barycentricmeanecliptic')


def tiers():
    return {'quick': {'runs': 480, 'selftest': 16, 'limit': 180, 'chunk': 4,
                      'ref_fraction': 0.5},
            'thorough': {'runs': 24000, 'selftest': 128, 'limit': 180,
                         'chunk': 8, 'ref_fraction': 1.0, 'min_budget': 200}}


def prepare(ctx, fork_call):
    """Driver-side, before any worker exists: evaluate the canary battery in
    a pristine fork."""
    plan = battery_plan()
    ctx['battery_plan'] = plan
    names = fork_call(lambda c: battery_digests(c), dict(ctx), 300)
    # every entry is evaluated ALONE in its own fork of the pristine image,
    # so that the expectation does not depend on the other entries either
    from sim.procs import run_batch
    global _PREP_CTX
    _PREP_CTX = dict(ctx)
    digs = run_batch(_battery_entry, list(range(len(names))), chunk=8)
    bad = [d for d in digs if isinstance(d, dict)]
    if bad:
        raise RuntimeError('canary battery could not be evaluated: '
                           + str(bad[0])[:500])
    ctx['battery'] = [[nm, d] for (nm, _), d in zip(names, digs)]


_PREP_CTX = {}


def _battery_entry(k):
    """Worker-side: evaluate battery entry k alone in a pristine fork."""
    from sim.procs import fork_call
    return fork_call(lambda c: fpc(battery_digests(c, only=k)), _PREP_CTX, 120)


def worker_post(plan, res, ctx, fork_call, tier_cfg):
    """Worker-side (pristine process): reference evaluations (I2) and the
    amplifier rule (R2)."""
    sel = Stream(plan['seed'], 'i2')
    events = res['events']
    n = len(events)
    frac = tier_cfg.get('ref_fraction', 0.5)
    res['stats']['i2_refs'] = 0
    seen_dm = set()
    for e in events:
        if e.get('skip'):
            continue
        j = e['j']
        take = sel.random() < frac or j >= n - 5 or \
            plan['ops'][j].get('twin')
        if not take or e['outcome'][0] == 'abort' or \
                e.get('fault') == 'line_abort':
            continue
        rctx = {k: v for k, v in ctx.items() if k not in ('battery',)}
        ref = fork_call(reference_eval,
                        (plan, res['derivations'], j, e['resolved'], rctx),
                        120)
        res['stats']['i2_refs'] += 1
        dm = ref.get('derivation_mismatch')
        if dm:
            # the producer of one of this call's inputs behaves differently
            # in a pristine process: report it against the producer
            pe = events[dm['op_index']] if dm['op_index'] < len(events) \
                else {}
            key = ('dm', dm['op_index'])
            if key in seen_dm:
                continue
            seen_dm.add(key)
            v = {'oracle': 'I2-history', 'step': dm['op_index'],
                 'op': pe.get('op', ''), 'cls': '', 'desc': pe.get('desc', ''),
                 'fault': pe.get('fault'),
                 'detail': (f'{pe.get("desc")}: after the history this call '
                            f'returned an object (stored as pool slot '
                            f'{dm["slot"]}, outcome {pe.get("outcome")}), '
                            f'but evaluated first in a pristine process its '
                            f'outcome is {dm["pristine_outcome"]}')[:700]}
            from sim.findings import match_known
            k = match_known(ctx.get('findings', []),
                            dict(v, property=PROPERTY))
            (res['known_hits'] if k else res['violations']).append(
                dict(v, id=k) if k else v)
            continue
        if ref.get('skip') or ref['digest'] != e['digest']:
            # fetch both canonical forms for the report
            rctx2 = dict(rctx, want_canon=True)
            ref2 = fork_call(reference_eval,
                             (plan, res['derivations'], j, e['resolved'],
                              rctx2), 120)
            s2 = fork_call(_rerun_with_canon, (plan, j, rctx), 180)
            d = diff(s2, ref2.get('canon')) if s2 is not None else '?'
            v = {'oracle': 'I2-history', 'step': j, 'op': e['op'], 'cls': '',
                 'desc': e['desc'], 'fault': e.get('fault'),
                 'detail': (f'{e["desc"]}: outcome after the history '
                            f'{e["outcome"]} differs from the same call '
                            f'evaluated first in a pristine process '
                            f'{ref.get("outcome")}: {d}')[:700]}
            from sim.findings import match_known
            k = match_known(ctx.get('findings', []),
                            dict(v, property=PROPERTY))
            if k:
                res['known_hits'].append({'id': k, **v})
            else:
                res['violations'].append(v)
    # I4 reports: add what differs, computed against a pristine fork
    for v in res['violations'] + res['known_hits']:
        if v.get('oracle') == 'I4-canary' and 'canary' in v:
            k, mine = v.pop('canary')
            rctx = {kk: vv for kk, vv in ctx.items() if kk != 'battery'}
            ref = fork_call(lambda c: battery_digests(c, only=k), rctx, 120)
            what = ctx['battery_plan']['ops'][k]
            pool = ctx['battery_plan']['pool']
            src = [pool[i]['recipe'] for i in what.get('forced', [])][:1]
            v['detail'] = (v['detail'] + f'; input {str(src)[:200]}; '
                           f'difference (after history vs pristine): '
                           f'{diff(mine, ref)}')[:900]
    res['digest'] = fpc([res['digest'],
                         [[v['oracle'], v['step'], v['op']]
                          for v in res['violations'] + res['known_hits']]])
    return res


def _rerun_with_canon(arg):
    plan, j, ctx = arg
    ex = Exec(plan, ctx)
    ex.setup_disk()
    ex._viol, ex._known = [], []
    try:
        for i in range(len(ex.pool)):
            ex.build_slot(i)
        for jj, op in enumerate(plan['ops'][:j + 1]):
            rec = ex.run_op(op, want_canon=(jj == j))
        return rec.get('canon')
    finally:
        ex.teardown()


def abstract_states(res):
    return set(tuple(s) for s in res['states'])


def nontrivial(state_repr):
    return state_repr.startswith("('pair'") or "'-', 'ok')" not in state_repr


def signature(v):
    d = re.sub(r'slot \d+', 'slot N', v['detail'])
    m = re.search(r'differs from its value at creation: (\S+)', d)
    where = m.group(1) if m else ''
    where = re.sub(r'\d+', '#', where)
    return (PROPERTY, v['oracle'], v.get('op', ''), v.get('cls', ''),
            where[:60])


def describe(plan, res):
    lines = [f'hist run seed={plan["seed"]} cfg={plan["cfg"]} '
             f'pool={len(plan["pool"])} ops={len(plan["ops"])}']
    for e in res['events']:
        if e.get('skip'):
            continue
        lines.append(f'  {e["j"]:2d} {e["desc"][:90]} slots={e["resolved"]} '
                     f'fault={e["fault"]}{"*" if e["fired"] else ""} '
                     f'-> {e["outcome"]}'
                     + (f' stored@{e["stored"]}' if 'stored' in e else ''))
    return lines[:70]


def shrink(plan):
    ops = plan['ops']
    n = len(ops)
    size = max(1, n // 2)
    while size >= 1:
        for lo in range(0, n, size):
            p = copy.deepcopy(plan)
            del p['ops'][lo:lo + size]
            if p['ops'] and len(p['ops']) < n:
                yield p
        if size == 1:
            break
        size //= 2
    for i, op in enumerate(ops):
        if op.get('fault'):
            p = copy.deepcopy(plan)
            del p['ops'][i]['fault']
            yield p
    if plan['cfg']['warn'] != 'default':
        p = copy.deepcopy(plan)
        p['cfg']['warn'] = 'default'
        yield p
