"""val - value-semantics state machine for properties C16 and C17.

One machine, two operation mixes and oracle sets.  Objects live in numbered
slots; every slot has a *model record*.  A plan is a list of abstract ops
``{'op': kind, 's': slot hint, 'r': sub-seed}``; the executor resolves the
hint against the live slots and derives field/value choices from the op's own
sub-seed, so that dropping ops (minimisation) leaves the remaining ops
meaningful.  The event log records the concrete operation that was executed.

C16 (mode c16): V1 independence, V2 copy law, V3 equality against the model.
C17 (mode c17): A1 rejection, A2 atomic rejection, A3 acceptance/read-back,
                A4 standing domain invariant.
"""
import copy
import math
import operator

import numpy as np

from sim import gen
from sim.fingerprint import canon, canon_loose, diff, fpc
from sim.recipes import build
from sim.rng import Stream

ENGINE = 'val'
ALLOWED_EXC = (ValueError, TypeError, KeyError)

# meta/visual menus restricted to values with plain Python equality
META_MENU = {k: list(v) for k, v in gen.META_VALUES.items()
             if k not in ('range',)}
VISUAL_MENU = {k: list(v) for k, v in gen.VISUAL_VALUES.items()}
for _k in ('label', 'comment', 'name', 'text'):
    META_MENU[_k].append(None)
for _k in ('color', 'linestyle', 'fontname'):
    VISUAL_MENU[_k].append(None)
# near-twins of menu values: equal only after case folding, stripping,
# rounding, sorting or tuple/list conversion -- none of which == may apply
META_MENU['text'] += ['Lbl', 'lbl ']
META_MENU['label'] += ['l1', 'L1 ']
META_MENU['name'] += ['N1', ' n1']
META_MENU['tag'] += [{'t': 'list', 'v': ['g2', 'g1']}]
META_MENU['corr'] += [{'t': 'list', 'v': ['Q', 'I']}]
VISUAL_MENU['linewidth'] += [2.0000001]
VISUAL_MENU['color'] += ['Green', 'green ']
VISUAL_MENU['fontsize'] += [10.000001]
VISUAL_MENU['dashes'] += [{'t': 'list', 'v': [3, 4]},
                          {'t': 'list', 'v': [4, 3]}]
# mutable values nested inside immutable ones (matplotlib's (offset, on-off
# list) dash form; a (values, unit) pair): a copy must not share the inner list
VISUAL_MENU['linestyle'] += [{'t': 'tuple', 'v': [0, {'t': 'list',
                                                     'v': [4, 2]}]}]
VISUAL_MENU['dashes'] += [{'t': 'tuple', 'v': [0, {'t': 'list',
                                                  'v': [3, 1]}]}]
META_MENU['corr'] += [{'t': 'tuple', 'v': [{'t': 'list', 'v': ['I', 'Q']},
                                           'lin']}]
META_MENU['comment'] += [{'t': 'dict', 'v': [['k', {'t': 'list',
                                                    'v': [1, 2]}]]}]
META_VALID = ['background', 'comment', 'component', 'composite', 'corr',
              'delete', 'edit', 'fixed', 'frame', 'highlite', 'include',
              'label', 'line', 'move', 'name', 'range', 'restfreq',
              'rotate', 'select', 'source', 'tag', 'text', 'textrotate',
              'type', 'veltype']
VISUAL_VALID = ['color', 'dash', 'dashlist', 'fill', 'font',
                'fontname', 'fontsize', 'fontstyle', 'fontweight',
                'labeloff', 'labelpos', 'labelcolor', 'line', 'linestyle',
                'linewidth', 'marker', 'markersize', 'symbol', 'symsize',
                'symthick', 'textangle', 'textrotate', 'usetex',
                'default_style', 'dashes', 'markeredgewidth', 'rotation',
                'facecolor', 'edgecolor']
VISUAL_KEYMAP = {'point': 'symbol', 'width': 'linewidth'}
BAD_KEYS = ['bogus', 'colour', 'Include', 'radius', '', 'tags', ' tag',
            'tag ', 'TAG', None, 5, ('tag',), b'tag']
# keys of the *other* vocabulary are just as invalid (and are exactly what a
# shared cache or a "trusted Meta argument" shortcut would let through)
META_ONLY = [k for k in META_VALID if k not in VISUAL_VALID]
VISUAL_ONLY = [k for k in VISUAL_VALID if k not in META_VALID] + ['point',
                                                                  'width']


def bad_key(rng, which):
    """A key outside the vocabulary of ``which`` ('meta' | 'visual')."""
    if rng.chance(0.5):
        return rng.pick(BAD_KEYS)
    return rng.pick(VISUAL_ONLY if which == 'meta' else META_ONLY)


# ------------------------------------------------------------- model
class MDict:
    def __init__(self, kind, d=None):
        self.kind = kind
        self.d = dict(d or {})
        self.tainted = False


class MRegion:
    def __init__(self, cls, tok=None, meta=None, visual=None, r1=None,
                 r2=None, op=None):
        self.cls = cls
        self.tok = dict(tok or {})
        self.meta = meta if meta is not None else MDict('meta')
        self.visual = visual if visual is not None else MDict('visual')
        self.r1, self.r2, self.op = r1, r2, op
        self.eq_unknown = False
        self.tainted = set()
        self.stored = {}          # c17: field -> object stored (identity)

    @property
    def compound(self):
        return self.r1 is not None

    @property
    def sky(self):
        return 'Sky' in self.cls

    def fields(self):
        if self.compound:
            return []
        return gen.ALL_CLASSES[self.cls]


class MList:
    def __init__(self, items):
        self.items = list(items)
        self.tainted = False


def reach(m, acc=None):
    acc = set() if acc is None else acc
    if id(m) in acc:
        return acc
    acc.add(id(m))
    if isinstance(m, MRegion):
        acc.add(id(m.meta))
        acc.add(id(m.visual))
        if m.compound:
            reach(m.r1, acc)
            reach(m.r2, acc)
    elif isinstance(m, MList):
        for it in m.items:
            reach(it, acc)
    return acc


def mcopy(m):
    """Model of an independent deep copy."""
    n = MRegion(m.cls, m.tok, MDict('meta', _vcopy(m.meta.d)),
                MDict('visual', _vcopy(m.visual.d)),
                mcopy(m.r1) if m.compound else None,
                mcopy(m.r2) if m.compound else None, m.op)
    n.eq_unknown = m.eq_unknown
    n.tainted = set(m.tainted)
    return n


def mirror(obj, src, memo=None):
    """Model of a copy ``obj`` of the object modelled by ``src``.

    Across the copy boundary the model assumes full independence (that is
    what V1 then checks).  *Inside* the copy the alias structure is not
    something the properties specify (``copy.deepcopy`` keeps ``c.meta is
    c.region1.meta`` for ``c = a | b``, ``Region.copy`` does not), so it is
    mirrored from the actual object: sub-objects that are identical in the
    copy get one model node."""
    memo = {} if memo is None else memo
    if id(obj) in memo:
        return memo[id(obj)]
    n = MRegion(src.cls, src.tok)
    memo[id(obj)] = n
    n.eq_unknown = src.eq_unknown
    n.tainted = set(src.tainted)
    for f in ('meta', 'visual'):
        d = getattr(obj, f, None)
        sm = getattr(src, f)
        if id(d) in memo:
            md = memo[id(d)]
        else:
            md = MDict(f, _vcopy(sm.d))
            memo[id(d)] = md
        setattr(n, f, md)
    if src.compound:
        n.op = src.op
        try:
            n.r1 = mirror(obj.region1, src.r1, memo)
            n.r2 = mirror(obj.region2, src.r2, memo)
        except Exception:
            n.r1, n.r2 = mcopy(src.r1), mcopy(src.r2)
    return n


def _plain(x):
    """``x`` as plain JSON data (other objects by their repr)."""
    if x is None or isinstance(x, (bool, int, float, str)):
        return x
    if isinstance(x, dict):
        return {k if isinstance(k, str) else repr(k): _plain(v)
                for k, v in x.items()}
    if isinstance(x, (list, tuple)):
        return [_plain(v) for v in x]
    return repr(x)


def _vcopy(d):
    return {k: copy.deepcopy(v) for k, v in d.items()}


def _ntok(t):
    if isinstance(t, (list, tuple)) and t and t[0] in ('near', 'in9x', 'in9y',
                                                       'vnear', 'vin9'):
        return t[1]
    if isinstance(t, (list, tuple)) and t and t[0] == 'vuint1':
        return ('vuint', t[1])
    if isinstance(t, (list, tuple)) and t and t[0] == 'infx':
        # x is replaced by inf: what is left of the menu value is its y
        return ('infx', gen.value_recipe('pixpos', t[1])['y'])
    return tuple(t) if isinstance(t, list) else t


def model_eq(a, b):
    """Predicted value of ``a == b`` (None: not predicted)."""
    if a.eq_unknown or b.eq_unknown:
        return None
    if a.cls != b.cls:
        return False
    if a.compound:
        sub = [model_eq(a.r1, b.r1), model_eq(a.r2, b.r2)]
        if False in sub or a.op != b.op:
            return False
        if None in sub:
            return None
    else:
        for f, _ in a.fields():
            if _ntok(a.tok[f]) != _ntok(b.tok[f]):
                return False
    if not _deq(a.meta.d, b.meta.d) or not _deq(a.visual.d, b.visual.d):
        return False
    return True


# ------------------------------------------------------------ values
def mk_value(kind, tok, near=False):
    """Menu value of a token.  Tokens may be decorated:
    ['ulp', t]  a value differing from menu value t by a relative 3e-13
                (sizes, angles, angular sizes: must compare UNEQUAL - only
                pixel positions have a tolerance);
    ['far', t]  a pixel position differing by a relative 1e-4 (outside the
                documented 1e-5 tolerance: UNEQUAL);
    near=True   a pixel position differing by a relative 2e-6 (inside the
                tolerance: EQUAL, same token)."""
    deco = None
    if isinstance(tok, list):
        deco, tok = tok[0], tok[1]
    r = gen.value_recipe(kind, tok)
    if near and kind == 'pixpos':
        r = dict(r)
        # (a coordinate that is exactly 0 stays 0: the documented tolerance
        # is relative, what happens around 0 is left to the implementation)
        r['x'] = r['x'] * (1 + 2e-6)
        r['y'] = r['y'] * (1 - 2e-6)
    if deco == 'far' and kind == 'pixpos':
        r = dict(r)
        r['x'] = r['x'] * (1 + 1e-4) if r['x'] else 1e-6
    if deco in ('out11x', 'out11y', 'in9x', 'in9y') and kind == 'pixpos':
        # just outside (1.1e-5) / just inside (0.9e-5) the documented
        # relative tolerance, on one coordinate (at 0: clearly off / exact)
        r = dict(r)
        ax = deco[-1]
        rel, ab = (-1.1e-5, -1e-4) if deco.startswith('out') \
            else (0.9e-5, 0.0)
        if ax == 'y':         # away from the 'near' variant (x up, y down)
            rel, ab = -rel, -ab
        r[ax] = r[ax] * (1 + rel) if r[ax] else ab
    if deco in ('vnear', 'vin9', 'vout11', 'vfar') and kind == 'pixverts':
        r = {'t': 'pix', 'x': list(r['x']), 'y': list(r['y'])}
        rel = {'vnear': 2e-6, 'vin9': 0.9e-5, 'vout11': -1.1e-5,
               'vfar': 1e-4}[deco]
        # the last non-zero coordinate of the vertex list (x, else y)
        for ax in ('x', 'y'):
            nz = [k for k, c in enumerate(r[ax]) if c]
            if nz:
                r[ax][nz[-1]] = r[ax][nz[-1]] * (1 + rel)
                break
    if deco == 'infx' and kind == 'pixpos':
        # an infinite coordinate is a coordinate: equal to itself, unequal to
        # every finite one
        r = dict(r)
        r['x'] = float('inf')
    if deco in ('vuint', 'vuint1') and kind == 'pixverts':
        # the same vertices, large and held in unsigned integer arrays;
        # 'vuint1' is one pixel off in one place (3e-6 relative: EQUAL)
        x = [int(round(abs(c) * 1e5)) + 300000 for c in r['x']]
        y = [int(round(abs(c) * 1e5)) + 300000 for c in r['y']]
        if deco == 'vuint1':
            x[-1] += 1
        r = {'t': 'pix', 'x': {'t': 'arr', 'v': x, 'dtype': 'uint32'},
             'y': {'t': 'arr', 'v': y, 'dtype': 'uint32'}}
    if deco == 'obst' and kind in ('skypos', 'skyverts'):
        # the same direction with an extra coordinate attribute (the time
        # of observation): another coordinate
        r = dict(r)
        r['obstime'] = 'J2010'
    if deco == 'ulpskyv' and kind == 'skyverts':
        r = dict(r)
        r['lat'] = list(r['lat'])
        r['lat'][-1] = r['lat'][-1] + 3e-11      # exact comparison: UNEQUAL
    if deco == 'ulpsky' and kind == 'skypos':
        r = dict(r)
        ax = 'lon' if tok % 2 else 'lat'
        r[ax] = r[ax] + 3e-11                 # must compare UNEQUAL (exact)
    v = build(r)
    if deco == 'ulp':
        if kind == 'size':
            v = v * (1 + 3e-13)
        elif kind in ('asize', 'angle'):
            v = v * (1 + 3e-13) if v.value else v + 3e-13 * v.unit
    return v


def decorate(rng, kind, tok):
    """Sometimes turn a menu token into a boundary variant of it."""
    if kind in ('size', 'asize', 'angle') and rng.chance(0.15):
        return ['ulp', tok]
    if kind == 'pixpos' and rng.chance(0.3):
        return [rng.pick(['far', 'out11x', 'out11y', 'in9x', 'in9y',
                          'infx']), tok]
    if kind == 'skypos' and rng.chance(0.2):
        return [rng.pick(['ulpsky', 'obst']), tok]
    if kind == 'pixverts' and rng.chance(0.3):
        return [rng.pick(['vnear', 'vin9', 'vout11', 'vfar', 'vuint',
                          'vuint1']), tok]
    if kind == 'skyverts' and rng.chance(0.2):
        return [rng.pick(['ulpskyv', 'obst']), tok]
    return tok


def valid_variant(rng, kind, tok):
    """A valid value for token ``tok`` in one of its legal spellings."""
    v = mk_value(kind, tok)
    import astropy.units as u
    from astropy.coordinates import Angle
    c = rng.randrange(6)
    if kind == 'size':
        if c == 1:
            return np.float64(v)
        if c == 2 and float(v).is_integer():
            return int(v)
        if c == 3:
            return np.float32(v) if float(np.float32(v)) == v else v
        if c == 4 and float(v).is_integer():
            return np.int64(v)
        if c == 5 and float(v).is_integer():
            return np.uint8(v)
    elif kind in ('angle', 'asize'):
        from astropy.coordinates import Latitude, Longitude
        if c == 1:
            return Angle(v)
        if c == 2:
            return u.Quantity(v.value, v.unit, dtype=np.float64)
        if c == 3 and abs(v.to_value(u.deg)) <= 90:
            return Latitude(v)
        if c == 4:
            return Longitude(v) if kind == 'angle' or v.value > 0 else v
        if c == 5:
            return u.Quantity(np.float32(v.value), v.unit)
        if c == 0 and rng.chance(0.5):
            return v.to(rng.pick([u.hourangle, u.mas, u.uas, u.mrad]))
    elif kind == 'nvert':
        if c == 1:
            return np.int64(v)
    return v


EXOTIC = [('complex', {'t': 'exotic', 'v': 'complex'}),
          ('dict', {'t': 'exotic', 'v': 'dict'}),
          ('set', {'t': 'exotic', 'v': 'set'}),
          ('object', {'t': 'exotic', 'v': 'object'}),
          ('bytes', {'t': 'bytes', 'v': 'x'}),
          ('function', {'t': 'exotic', 'v': 'function'}),
          ('type', {'t': 'exotic', 'v': 'type'})]


def invalid_values(kind):
    """Catalogue of values outside the documented domain of ``kind``
    (plus, for every kind, objects that are in no parameter's domain)."""
    base = _invalid_values(kind)
    return base + EXOTIC if base else base


def _invalid_values(kind):
    Q = lambda v, unit: {'t': 'q', 'v': v, 'u': unit}  # noqa
    pixarr = {'t': 'pix', 'x': [1.0, 2.0, 3.0], 'y': [1.0, 5.0, 2.0]}
    pix2d = {'t': 'pix', 'x': {'t': 'arr', 'v': [[1.0, 2.0], [3.0, 4.0]]},
             'y': {'t': 'arr', 'v': [[1.0, 5.0], [2.0, 0.0]]}}
    pixs = {'t': 'pix', 'x': 1.0, 'y': 2.0}
    skyarr = {'t': 'sky', 'lon': [10.0, 10.2, 10.1], 'lat': [20.0, 20.0, 20.2]}
    skys = {'t': 'sky', 'lon': 10.0, 'lat': 20.0}
    if kind == 'size':
        return [('zero', 0), ('zero_f', 0.0), ('neg', -1.5), ('nan', {'t': 'nan'}),
                ('inf', {'t': 'inf'}), ('ninf', {'t': 'ninf'}),
                ('str', 'abc'), ('none', None),
                ('decimal_inf', {'t': 'exotic', 'v': 'decimal_inf'}),
                ('decimal_ninf', {'t': 'exotic', 'v': 'decimal_ninf'}),
                ('decimal_zero', {'t': 'exotic', 'v': 'decimal_zero'}),
                ('decimal_neg', {'t': 'exotic', 'v': 'decimal_neg'}),
                ('fraction_neg', {'t': 'exotic', 'v': 'fraction_neg'}),
                ('fraction_zero', {'t': 'exotic', 'v': 'fraction_zero'}),
                ('numeric_str', '5'), ('numeric_str_f', ' 2.5 '),
                ('numeric_str_e', '1e2'),
                ('numeric_bytes', {'t': 'bytes', 'v': '5'}),
                ('np_str', {'t': 'npstr', 'v': '3'}),
                ('list', {'t': 'list', 'v': [1.0, 2.0]}),
                ('arr0d', {'t': 'arr', 'v': 2.0}),
                ('arr1d', {'t': 'arr', 'v': [1.0, 2.0]}),
                ('quantity_pix', Q(2.0, 'pix')), ('quantity_deg', Q(2.0, 'deg')),
                ('quantity_dimensionless', Q(2.0, '')),
                ('quantity_percent', Q(200.0, 'percent')),
                ('np_nan', {'t': 'npf', 'v': {'t': 'nan'}}),
                ('np_inf', {'t': 'npf', 'v': {'t': 'inf'}})]
    if kind == 'nvert':
        return [('zero', 0), ('neg', -3), ('str', 'a'), ('none', None),
                ('one', 1), ('two', 2), ('two_and_a_half', 2.5),
                ('three_and_a_half', 3.5), ('four_point_two', 4.2),
                ('quantity_dimensionless', Q(5.0, '')),
                ('numeric_str', '5'), ('numeric_bytes', {'t': 'bytes', 'v': '5'}),
                ('list', {'t': 'list', 'v': [3]}), ('nan', {'t': 'nan'}),
                ('inf', {'t': 'inf'})]
    if kind == 'asize':
        return [('zero', Q(0.0, 'deg')), ('neg', Q(-1.0, 'arcsec')),
                ('nan', Q({'t': 'nan'}, 'deg')), ('inf', Q({'t': 'inf'}, 'deg')),
                ('ninf', Q({'t': 'ninf'}, 'arcsec')),
                ('bare_float', 2.0), ('bare_int', 3),
                ('non_angular', Q(2.0, 'm')), ('dimensionless', Q(2.0, '')),
                ('parsec', Q(3.0, 'pc')), ('solid_angle', Q(2.0, 'sr')),
                ('deg2', Q(2.0, 'deg2')), ('per_deg', Q(2.0, '1/deg')),
                ('deg_per_s', Q(2.0, 'deg/s')),
                ('array', Q([1.0, 2.0], 'deg')), ('str', 'abc'),
                ('quantity_str', '5 deg'), ('numeric_str', '5'),
                ('none', None), ('pix_quantity', Q(2.0, 'pix')),
                ('angle_array', {'t': 'angle', 'v': [1.0, 2.0], 'u': 'deg'}),
                ('angle_array1', {'t': 'angle', 'v': [1.0], 'u': 'arcsec'}),
                ('angle_zero', {'t': 'angle', 'v': 0.0, 'u': 'deg'}),
                ('angle_neg', {'t': 'angle', 'v': -2.0, 'u': 'arcmin'}),
                ('array1', Q([1.0], 'deg'))]
    if kind == 'angle':
        return [('bare_float', 30.0), ('bare_int', 0),
                ('nan', Q({'t': 'nan'}, 'deg')), ('inf', Q({'t': 'inf'}, 'rad')),
                ('ninf', Q({'t': 'ninf'}, 'deg')),
                ('non_angular', Q(30.0, 'm')), ('dimensionless', Q(1.0, '')),
                ('pix', Q(30.0, 'pix')), ('parsec', Q(3.0, 'pc')),
                ('solid_angle', Q(2.0, 'sr')), ('deg2', Q(2.0, 'deg2')),
                ('deg_per_s', Q(2.0, 'deg/s')),
                ('array', Q([1.0, 2.0], 'deg')), ('str', '30deg'),
                ('none', None), ('time', Q(3.0, 's')),
                ('angle_array', {'t': 'angle', 'v': [10.0, 20.0], 'u': 'deg'}),
                ('angle_array1', {'t': 'angle', 'v': [10.0], 'u': 'deg'}),
                ('angle_array2d', {'t': 'angle', 'v': [[1.0, 2.0], [3.0, 4.0]],
                                   'u': 'deg'}),
                ('array1', Q([30.0], 'deg')),
                ('list_of_q', {'t': 'list', 'v': [Q(30.0, 'deg')]})]
    if kind == 'pixpos':
        return [('array', pixarr), ('array2d', pix2d), ('sky', skys),
                ('became_array', {'_mutated': 'scalar_to_array'}),
                ('y_became_array', {'_mutated': 'scalar_y_to_array'}),
                ('x_became_array', {'_mutated': 'scalar_x_to_array'}),
                ('array1', {'t': 'pix', 'x': [1.0], 'y': [2.0]}),
                ('array0', {'t': 'pix', 'x': {'t': 'arr', 'v': []},
                            'y': {'t': 'arr', 'v': []}}),
                ('tuple', {'t': 'tuple', 'v': [1.0, 2.0]}), ('none', None),
                ('float', 3.0), ('skyarr', skyarr),
                ('list', {'t': 'list', 'v': [1.0, 2.0]})]
    if kind == 'skypos':
        return [('array', skyarr), ('pix', pixs),
                ('str', '10d 20d'), ('frame', {'t': 'exotic', 'v': 'icrs_frame'}),
                ('empty', {'t': 'sky', 'lon': [], 'lat': []}),
                ('array1', {'t': 'sky', 'lon': [10.0], 'lat': [20.0]}),
                ('tuple', {'t': 'tuple', 'v': [10.0, 20.0]}), ('none', None),
                ('float', 3.0), ('pixarr', pixarr),
                ('quantity', Q([10.0, 20.0], 'deg'))]
    if kind == 'pixverts':
        return [('scalar', pixs), ('array2d', pix2d), ('skyarr', skyarr),
                ('float', 3.0), ('str', '1,2,3'),
                ('tuple', {'t': 'tuple', 'v': [[1.0, 5.0, 3.0],
                                               [1.0, 1.0, 6.0]]}),
                ('list_of_pix', {'t': 'list', 'v': [pixs, pixs, pixs]}),
                ('array2d_1row', {'t': 'pix',
                                  'x': {'t': 'arr', 'v': [[1.0, 5.0, 3.0]]},
                                  'y': {'t': 'arr', 'v': [[1.0, 1.0, 6.0]]}}),
                ('became_scalar', {'_mutated': 'array_to_scalar'}),
                ('list', {'t': 'list', 'v': [{'t': 'tuple', 'v': [1.0, 2.0]},
                                             {'t': 'tuple', 'v': [3.0, 4.0]},
                                             {'t': 'tuple', 'v': [0.0, 4.0]}]}),
                ('none', None), ('ndarray', {'t': 'arr', 'v': [[1.0, 2.0, 3.0],
                                                               [1.0, 5.0, 2.0]]})]
    if kind == 'skyverts':
        return [('scalar', skys), ('pixarr', pixarr), ('none', None),
                ('str', '10d 20d'), ('float', 3.0),
                ('frame', {'t': 'exotic', 'v': 'icrs_frame_array'}),
                ('tuple', {'t': 'tuple', 'v': [[10.0, 11.0, 10.5],
                                               [20.0, 20.0, 21.0]]}),
                ('list_of_sky', {'t': 'list', 'v': [skys, skys, skys]}),
                ('array2d', {'t': 'sky', 'lon': {'t': 'lit', 'v': None},
                             'lat': None, '_2d': True}),
                ('quantity', Q([10.0, 20.0, 30.0], 'deg'))]
    return []


def _icrs_frame(array=False):
    import astropy.units as u
    from astropy.coordinates import ICRS
    if array:
        return ICRS([10, 11, 10.5] * u.deg, [20, 20, 21] * u.deg)
    return ICRS(10 * u.deg, 20 * u.deg)


def _userdict(d):
    import collections
    return collections.UserDict(d)


# values for ``meta`` / ``visual`` that are not mappings at all (all truthy:
# a falsy value means "not given" to the constructors)
NON_MAPPINGS = [('int', 5), ('str', 'abc'), ('tuple', {'t': 'tuple',
                                                       'v': ['a']}),
                # (mappings and pair lists with VALID keys are not listed: a
                # library may accept any mapping; only keys are specified)
                ('userdict_badkey', {'t': 'exotic', 'v': 'userdict_badkey'}),
                ('float', 2.5), ('object', {'t': 'exotic', 'v': 'object'})]


def _mutated_pixcoord(how):
    """A PixCoord that WAS valid, was used (validated) as such, and whose
    public data members were then re-assigned so that it no longer is."""
    from regions import CirclePixelRegion, PixCoord, PolygonPixelRegion
    if how in ('scalar_to_array', 'scalar_y_to_array', 'scalar_x_to_array'):
        p = PixCoord(1.0, 2.0)
        CirclePixelRegion(p, 1.0)                 # validated while scalar
        if how != 'scalar_y_to_array':
            p.x = np.array([1.0, 2.0, 3.0])
        if how != 'scalar_x_to_array':
            p.y = np.array([4.0, 5.0, 6.0])
    elif how in ('array_x_to_scalar', 'array_y_longer'):
        p = PixCoord(np.array([1.0, 5.0, 3.0]), np.array([1.0, 1.0, 6.0]))
        PolygonPixelRegion(p)                     # validated while 1-D
        if how == 'array_x_to_scalar':
            p.x = 2.0
        else:
            p.y = np.array([1.0, 1.0, 6.0, 2.0])
    else:
        p = PixCoord(np.array([1.0, 5.0, 3.0]), np.array([1.0, 1.0, 6.0]))
        PolygonPixelRegion(p)                     # validated while 1-D
        p.x = 1.0
        p.y = 2.0
    return p


def build_invalid(rec):
    if isinstance(rec, dict) and rec.get('t') == 'exotic':
        import decimal
        import fractions
        return {'complex': 1 + 2j, 'dict': {'a': 1}, 'set': {1, 2},
                'object': object(), 'function': len, 'type': float,
                # non-positive / non-finite numbers of other numeric types
                'icrs_frame': _icrs_frame(),
                'icrs_frame_array': _icrs_frame(array=True),
                'userdict_badkey': _userdict({'bogus': 1}),
                'userdict_ok': _userdict({'label': 'x'}),
                'decimal_inf': decimal.Decimal('Infinity'),
                'decimal_ninf': decimal.Decimal('-Infinity'),
                'decimal_zero': decimal.Decimal('0'),
                'decimal_neg': decimal.Decimal('-2.5'),
                'fraction_neg': fractions.Fraction(-1, 2),
                'fraction_zero': fractions.Fraction(0, 1)}[rec['v']]
    if isinstance(rec, dict) and rec.get('t') == 'bytes':
        return rec['v'].encode()
    if isinstance(rec, dict) and rec.get('t') == 'npstr':
        return np.str_(rec['v'])
    if isinstance(rec, dict) and rec.get('_mutated'):
        return _mutated_pixcoord(rec['_mutated'])
    if isinstance(rec, dict) and rec.get('_2d'):
        import astropy.units as u
        from astropy.coordinates import SkyCoord
        return SkyCoord(np.array([[10.0, 10.2], [10.1, 10.3]]) * u.deg,
                        np.array([[20.0, 20.0], [20.2, 20.3]]) * u.deg)
    return build(rec)


# array-valued entries: values without a single truth value.  Their
# near-twins differ in shape only (and would broadcast to equal elements).
# A one-element array and the scalar of the same value are NOT paired: numpy
# itself calls those equal, and the property does not say otherwise.
ARRAY_MENU = {
    'visual': {'dashes': [{'t': 'arr', 'v': [4.0, 4.0]},
                          {'t': 'arr', 'v': [4.0]},
                          {'t': 'arr', 'v': [4.0, 2.0]},
                          {'t': 'arr', 'v': []}]},
    'meta': {'range': [{'t': 'q', 'v': [5.0, 5.0], 'u': 'GHz'},
                       {'t': 'q', 'v': [5.0, 2.0], 'u': 'GHz'},
                       {'t': 'q', 'v': [5.0], 'u': 'GHz'}]},
}


class _IndexLike:
    """Not an integer, but usable as an index."""

    def __init__(self, v):
        self.v = int(v)

    def __index__(self):
        return self.v

    def __repr__(self):
        return f'_IndexLike({self.v})'


def _alias_or_copy(compound, which, operand, operand_model):
    """The model of a compound's meta/visual taken over from its first
    operand: the operand's own model object if the library stores the very
    dict (what it does today), an independent copy if it stores a copy - the
    properties do not say which."""
    try:
        if getattr(compound, which) is getattr(operand, which):
            return operand_model
    except Exception:
        pass
    return MDict(which, _vcopy(operand_model.d))


def _strictly(v, ov, below):
    """``v`` strictly below (above) ``ov``, from both operands' side and
    with a margin far above conversion rounding."""
    lo, hi = (v, ov) if below else (ov, v)
    return bool(lo < hi) and bool(hi > lo) and bool(lo * (1 + 1e-9) < hi)


def _veq(a, b):
    """Value equality that also works for array values: same shape and all
    elements equal."""
    if isinstance(a, np.ndarray) or isinstance(b, np.ndarray):
        try:
            return np.shape(a) == np.shape(b) and \
                bool(np.all(np.asarray(a == b)))
        except Exception:
            return False
    if isinstance(a, (list, tuple)) and type(a) is type(b):
        return len(a) == len(b) and all(_veq(x, y) for x, y in zip(a, b))
    return a == b


def _deq(d1, d2):
    return d1.keys() == d2.keys() and all(_veq(d1[k], d2[k]) for k in d1)


def _has_array_entry(obj, depth=0):
    """Does a region (or an operand of a compound) hold a meta/visual entry
    that is an array with other than one element?"""
    if depth > 4:
        return False
    for f in ('meta', 'visual'):
        d = getattr(obj, f, None)
        if isinstance(d, dict):
            for v in d.values():
                if isinstance(v, np.ndarray) and v.size != 1:
                    return True
    return any(_has_array_entry(getattr(obj, r, None), depth + 1)
               for r in ('region1', 'region2') if hasattr(obj, r))


def draw_dict_items(rng, kind, nmax=3, arrays=False):
    if arrays and rng.chance(0.12):
        k = rng.pick(sorted(ARRAY_MENU[kind]))
        base = [x for x in draw_dict_items(rng, kind, 2) if x[0] != k]
        return base + [[k, rng.pick(ARRAY_MENU[kind][k])]]
    menu = META_MENU if kind == 'meta' else VISUAL_MENU
    hot = gen.META_HOT if kind == 'meta' else gen.VISUAL_HOT
    hot = [k for k in hot if k in menu]
    n = rng.randrange(nmax + 1)
    keys = []
    for _ in range(n):
        k = rng.pick(hot if rng.chance(0.7) else sorted(menu))
        if k not in keys:
            keys.append(k)
    if rng.chance(0.2):
        # keys that are valid in BOTH vocabularies
        k = rng.pick(['line', 'textrotate'])
        if k not in keys:
            keys.append(k)
    def vals(k):
        if arrays:
            return menu[k]
        # C17 speaks about keys: text-like entries get text (or None), so
        # that a library which also checks value types is not offered
        # anything it may refuse
        plain = [v for v in menu[k]
                 if k not in ('comment', 'label', 'name', 'text')
                 or v is None or isinstance(v, str)]
        return plain or menu[k]
    return [[k, rng.pick(vals(k))] for k in keys]


def _other_kind_meta(rng, f):
    """A Meta object of the OTHER kind holding one of its own keys (valid for
    it, outside the vocabulary of ``f``)."""
    from regions import RegionMeta, RegionVisual
    Other = RegionVisual if f == 'meta' else RegionMeta
    omenu = VISUAL_MENU if f == 'meta' else META_MENU
    ok_ = [k for k in (VISUAL_ONLY if f == 'meta' else META_ONLY)
           if k in omenu]
    k = rng.pick(ok_)
    try:
        return Other({k: build(rng.pick(_plain_vals(omenu, k)))})
    except (TypeError, ValueError) as exc:
        raise MenuRefused(repr(exc))


def _pairs_as(form, items):
    """The (key, value) pairs in one of the forms ``dict.update`` takes."""
    import collections
    import types
    pairs = [(k, v) for k, v in items]
    if form == 'dict':
        return dict(pairs)
    if form == 'tuple':
        return tuple(pairs)
    if form == 'iter':
        return iter(pairs)
    if form == 'gen':
        return (p for p in pairs)
    if form == 'zip':
        return zip([k for k, _ in pairs], [v for _, v in pairs])
    if form == 'userdict':
        return collections.UserDict(dict(pairs))
    if form == 'mappingproxy':
        return types.MappingProxyType(dict(pairs))
    return pairs


def _plain_vals(menu, k):
    """Menu values of key ``k`` that any value-checking library would take:
    text (or None) for the text-like keys."""
    plain = [v for v in menu[k]
             if k not in ('comment', 'label', 'name', 'text')
             or v is None or isinstance(v, str)]
    return plain or menu[k]


def perturb_items(rng, kind, current):
    """Items of a dict that differs from ``current`` (a model dict) in
    exactly one entry: a changed value, a dropped key, an added key, a key
    replaced by another key (same number of entries), a None value in place
    of a missing key and vice versa.  Returns None if no variant applies."""
    menu = META_MENU if kind == 'meta' else VISUAL_MENU
    amenu = ARRAY_MENU[kind]
    arr_keys = [k for k in current if k in amenu
                and any(_veq(build(r), current[k]) for r in amenu[k])]
    if arr_keys and rng.chance(0.7):
        # an array-valued entry replaced by its near-twin
        k = rng.pick(sorted(arr_keys))
        alts = [r for r in amenu[k] if not _veq(build(r), current[k])]
        others = [[kk, _recipe_of(dict(menu, **amenu), kk, v)]
                  for kk, v in current.items() if kk != k]
        if any(r is _MISSING for _, r in others):
            return None
        return others + [[k, rng.pick(alts)]]
    items = [[k, _recipe_of(dict(menu, **amenu), k, v)]
             for k, v in current.items()]
    if any(r is _MISSING for _, r in items):
        return None
    absent = [k for k in sorted(menu) if k not in current]
    how = rng.pick(['change', 'drop', 'add', 'replace_key', 'add_none',
                    'to_none', 'reorder', 'swap_values'])
    if how == 'reorder':
        # the same entries inserted in another order: an EQUAL dict
        return items[::-1] if len(items) >= 2 else None
    if how == 'swap_values':
        # the values of two keys exchanged (only where both results are
        # different from the original entries)
        if len(items) < 2:
            return None
        i, j = rng.sample(range(len(items)), 2)
        if _veq(build(items[i][1]), build(items[j][1])):
            return None
        items[i][1], items[j][1] = items[j][1], items[i][1]
        return items
    if how in ('change', 'drop', 'replace_key', 'to_none') and not items:
        how = 'add'
    if how in ('add', 'replace_key', 'add_none') and not absent:
        return None
    i = rng.randrange(len(items)) if items else 0
    if how == 'change':
        k = items[i][0]
        alts = [v for v in menu.get(k, []) + amenu.get(k, [])
                if not _veq(build(v), current[k])]
        if not alts:
            return None
        items[i] = [k, rng.pick(alts)]
    elif how == 'drop':
        del items[i]
    elif how == 'add':
        k = rng.pick(absent)
        items.append([k, rng.pick(menu[k])])
    elif how == 'replace_key':
        k = rng.pick(absent)
        items[i] = [k, rng.pick(menu[k] + [None])]
    elif how == 'add_none':
        items.append([rng.pick(absent), None])
    elif how == 'to_none':
        if current[items[i][0]] is None:
            return None
        items[i] = [items[i][0], None]
    return items


_MISSING = object()


def _recipe_of(menu, key, value):
    """The menu recipe that builds ``value`` (model values are built from
    menu recipes, so one always exists unless the dict was edited by hand)."""
    for r in menu.get(key, []):
        try:
            if _veq(build(r), value) and type(build(r)) is type(value):
                return r
        except Exception:
            pass
    if value is None or isinstance(value, (str, int, float, bool)):
        return value
    return _MISSING


def items_to_model(items):
    return {k: build(v) for k, v in items}


# --------------------------------------------------------- domain check
def domain_problems(obj):
    """Independent validator of the documented domain (A4)."""
    import astropy.units as u
    from astropy.coordinates import SkyCoord
    from regions import (PixCoord, Region, RegionMeta, Regions,
                         RegionVisual)
    out = []
    if isinstance(obj, Regions):
        for i, it in enumerate(obj.regions):
            if not isinstance(it, Region):
                out.append(('member', f'regions[{i}] is {type(it).__name__}'))
        return out
    if not isinstance(obj, Region):
        return out
    name = type(obj).__name__
    if name.startswith('Compound'):
        want = 'Sky' if 'Sky' in name else 'Pixel'
        for f in ('region1', 'region2'):
            sub = getattr(obj, f, None)
            if not isinstance(sub, Region) or want not in type(sub).__name__:
                out.append((f, f'{f} is {type(sub).__name__}'))
            else:
                out.extend(domain_problems(sub))
        if not callable(getattr(obj, 'operator', None)):
            out.append(('operator', 'operator not callable'))
    else:
        for f, kind in gen.ALL_CLASSES.get(name, []):
            if not hasattr(obj, f):
                out.append((f, f'{f} missing'))
                continue
            v = getattr(obj, f)
            p = None
            try:
                p = _field_problem(f, kind, v, u, PixCoord, SkyCoord)
            except Exception as exc:      # e.g. complex > 0
                p = f'{f}={v!r} is not in the domain ({type(exc).__name__})'
            if p:
                out.append((f, p))
        for inner, outer in gen.ANNULUS_PAIRS.get(name, []):
            try:
                a, b = getattr(obj, inner), getattr(obj, outer)
                if not (a < b):
                    out.append((inner + '/' + outer,
                                f'{inner}={a!r} is not smaller than '
                                f'{outer}={b!r}'))
            except Exception:
                pass
    for f, cls, valid in (('meta', RegionMeta, META_VALID),
                          ('visual', RegionVisual, VISUAL_VALID)):
        d = getattr(obj, f, None)
        if not isinstance(d, cls):
            out.append((f, f'{f} is a {type(d).__name__}, not a '
                        f'{cls.__name__}'))
        if isinstance(d, dict):
            bad = [k for k in d if k not in valid]
            if bad:
                out.append((f, f'{f} has keys outside the vocabulary: {bad}'))
    return out


def _field_problem(f, kind, v, u, PixCoord, SkyCoord):
    p = None
    if kind in ('size', 'nvert'):
        if isinstance(v, u.Quantity) or not np.isscalar(v) \
                or isinstance(v, (str, bytes)):
            p = f'{f}={v!r} is not a plain scalar'
        elif not (v > 0) or not math.isfinite(v):
            p = f'{f}={v!r} is not positive and finite'
        elif kind == 'nvert' and v < 3:
            p = f'{f}={v!r} is smaller than 3'
    elif kind == 'asize':
        if not isinstance(v, u.Quantity) or not v.isscalar or \
                v.unit.physical_type != 'angle':
            p = f'{f}={v!r} is not a scalar angle'
        elif not (v.value > 0) or not math.isfinite(v.value):
            p = f'{f}={v!r} is not positive and finite'
    elif kind == 'angle':
        if not isinstance(v, u.Quantity) or not v.isscalar or \
                v.unit.physical_type != 'angle':
            p = f'{f}={v!r} is not a scalar angle'
        elif not math.isfinite(v.value):
            p = f'{f}={v!r} is not finite'
    elif kind == 'pixpos':
        if not isinstance(v, PixCoord) or not v.isscalar:
            p = f'{f}={v!r} is not a scalar PixCoord'
    elif kind == 'skypos':
        if not isinstance(v, SkyCoord) or not v.isscalar:
            p = f'{f}={v!r} is not a scalar SkyCoord'
    elif kind == 'pixverts':
        if not isinstance(v, PixCoord) or v.isscalar or \
                np.ndim(v.x) != 1:
            p = f'{f}={v!r} is not a 1-D PixCoord'
    elif kind == 'skyverts':
        if not isinstance(v, SkyCoord) or v.ndim != 1:
            p = f'{f}={v!r} is not a 1-D SkyCoord'
    return p


# ------------------------------------------------------------- machine
class MenuRefused(Exception):
    """The library refused a menu VALUE of a meta/visual entry (the
    properties speak about keys; a library that also checks values is free to
    do so): the op is skipped."""


def _bd(kind, items):
    try:
        return build({'t': kind, 'v': items})
    except (TypeError, ValueError) as exc:
        raise MenuRefused(f'{kind}: {exc!r}')


class ValidRejected(Exception):
    """The library refused to construct an object from in-domain values."""

    def __init__(self, cls, detail):
        super().__init__(detail)
        self.cls = cls
        self.detail = detail


class Slot:
    def __init__(self, kind, obj, model):
        self.kind = kind        # 'region' | 'list' | 'dict'
        self.obj = obj
        self.model = model


class Machine:
    def __init__(self, plan, ctx):
        self.plan = plan
        self.ctx = ctx
        self.mode = plan['mode']
        self.prop = 'C16' if self.mode == 'c16' else 'C17'
        self.slots = []
        self.last = []          # canon per slot
        self.events = []
        self.violations = []
        self.known_hits = []
        self.nmut = 0
        self.stats = {'ops': {}, 'skipped': 0, 'rejected': 0, 'accepted': 0,
                      'invalid_kinds': {}, 'compares': 0, 'eq_true': 0,
                      'eq_false': 0, 'eq_unpredicted': 0,
                      'independence_checks': 0}
        self.states = set()
        self.step = -1

    # ---- reporting
    def violation(self, oracle, detail, **extra):
        cls = extra.get('cls', '')
        sig = {'property': self.prop, 'oracle': oracle, 'cls': cls,
               'op': extra.get('op', self.cur_op), 'detail': detail,
               'field': extra.get('field', ''), 'value': extra.get('value', '')}
        v = {'oracle': oracle, 'step': self.step, 'op': sig['op'],
             'cls': cls, 'field': sig['field'], 'value': sig['value'],
             'detail': detail[:600]}
        from sim.findings import match_known
        k = match_known(self.ctx.get('findings', []), sig)
        if k:
            self.known_hits.append({'id': k, **v})
            return k
        self.violations.append(v)
        return None

    def state(self, *parts):
        self.states.add(tuple(str(p) for p in parts))

    # ---- slots
    def pick(self, hint, pred):
        cands = [i for i, s in enumerate(self.slots) if pred(s)]
        if not cands:
            return None
        return cands[hint % len(cands)]

    def add_slot(self, kind, obj, model):
        self.slots.append(Slot(kind, obj, model))
        self.last.append(canon(obj))
        return len(self.slots) - 1

    # ---- V1 / A2 support
    def check_unchanged(self, touched, oracle, what):
        """Every slot whose model does not reach a touched model object must
        have an unchanged canonical form."""
        for i, s in enumerate(self.slots):
            c = canon(s.obj)
            if reach(s.model) & touched:
                self.last[i] = c
                continue
            self.stats['independence_checks'] += 1
            if c != self.last[i]:
                self.violation(
                    oracle, f'{what}: slot {i} ({_cname(s.obj)}) changed '
                    f'although it is not the operation\'s target nor a '
                    f'by-design alias: {diff(self.last[i], c)}',
                    cls=_cname(s.obj))
                self.last[i] = c

    # ---- execution
    def run(self):
        import contextlib
        import astropy.units as u
        eq = self.plan.get('cfg', {}).get('equiv', 'none')
        ctx = contextlib.nullcontext()
        if eq == 'dimensionless_angles':
            ctx = u.set_enabled_equivalencies(u.dimensionless_angles())
        elif eq == 'pixel_scale':
            ctx = u.set_enabled_equivalencies(
                u.pixel_scale(0.5 * u.arcsec / u.pix))
        elif eq == 'parallax':
            ctx = u.set_enabled_equivalencies(u.parallax())
        with ctx:
            return self._run()

    def _run(self):
        for i, op in enumerate(self.plan['ops']):
            self.step = i
            self.cur_op = op['op']
            rng = Stream(op['r'], 'op')
            self.stats['ops'][op['op']] = self.stats['ops'].get(op['op'], 0) + 1
            n0 = len(self.events)
            handler = getattr(self, 'op_' + op['op'])
            try:
                handler(op, rng)
            except MenuRefused:
                self.stats['menu_value_refused'] = \
                    self.stats.get('menu_value_refused', 0) + 1
            except ValidRejected as exc:
                self.violation('A3-valid-rejected' if self.mode == 'c17'
                               else 'V0-valid-construction-raises',
                               exc.detail, cls=exc.cls)
                self.ev(outcome='valid-construction-raised', cls=exc.cls)
            if len(self.events) == n0:
                self.stats['skipped'] += 1
                self.events.append({'step': i, 'op': op['op'], 'skip': True})
            if self.mode == 'c17':
                self.standing_invariant()
        return self.result()

    def ev(self, **kw):
        kw['step'] = self.step
        kw.setdefault('op', self.cur_op)
        self.events.append(_plain(kw))

    def result(self):
        return {'seed': self.plan['seed'], 'events': self.events,
                'violations': self.violations, 'known_hits': self.known_hits,
                'stats': self.stats, 'states': sorted(self.states),
                'digest': fpc([self.events, self.violations, self.known_hits,
                               self.last])}

    # =================================================== shared: construct
    def new_simple(self, rng, cls=None, with_dicts=0.7):
        cls = cls or rng.pick(sorted(gen.ALL_CLASSES))
        toks = gen.draw_tokens(rng, cls)
        arrays = self.mode == 'c16'
        meta = draw_dict_items(rng, 'meta', arrays=arrays) \
            if rng.chance(with_dicts) else []
        visual = draw_dict_items(rng, 'visual', arrays=arrays) \
            if rng.chance(with_dicts) else []
        near = {}
        params = {}
        for f, kind in gen.ALL_CLASSES[cls]:
            nr = kind == 'pixpos' and rng.chance(0.2)
            params[f] = mk_value(kind, toks[f], near=nr)
            if nr:
                near[f] = True
            if kind in ('asize', 'angle') and self.mode == 'c16' and \
                    rng.chance(0.25):
                # the same value as an Angle (a Quantity subclass; the
                # docstrings' spelling): equal to the plain Quantity, from
                # either side
                from astropy.coordinates import Angle
                params[f] = Angle(params[f])
        import regions
        extra = {}
        if cls == 'PolygonPixelRegion' and rng.chance(0.3):
            # the documented ``origin`` option: the vertices are given
            # relative to it (the region then holds the menu's vertices, up
            # to the rounding of (v - o) + o, far inside the tolerance)
            from regions import PixCoord
            ox, oy = rng.pick([(4.0, 2.5), (-3.0, 10.0), (0.5, 0.0)])
            v = params['vertices']
            params['vertices'] = PixCoord(v.x - ox, v.y - oy)
            extra['origin'] = PixCoord(ox, oy)
        if 'angle' in params and toks.get('angle') == 0 and \
                self.mode == 'c16' and rng.chance(0.6):
            # the constructor's own default (0 deg): regions built with it
            # are as independent of each other as any others
            del params['angle']
        try:
            obj = getattr(regions, cls)(
                **params, **extra, meta=_bd('meta', meta),
                visual=_bd('visual', visual))
        except MenuRefused:
            raise
        except Exception as exc:
            raise ValidRejected(cls, f'{cls}(**menu values {toks}) raised '
                                f'{type(exc).__name__}: {str(exc)[:120]}')
        m = MRegion(cls, toks, MDict('meta', items_to_model(meta)),
                    MDict('visual', items_to_model(visual)))
        return obj, m

    def new_compound(self, rng, sky):
        classes = [c for c in sorted(gen.SKY_CLASSES if sky
                                     else gen.PIXEL_CLASSES)]
        o1, m1 = self.new_simple(rng, rng.pick(classes))
        o2, m2 = self.new_simple(rng, rng.pick(classes))
        opname = rng.pick(['and_', 'or_', 'xor'])
        import regions
        cls = 'CompoundSkyRegion' if sky else 'CompoundPixelRegion'
        kw = {}
        if rng.chance(0.5):
            meta = draw_dict_items(rng, 'meta')
            visual = draw_dict_items(rng, 'visual')
            kw = {'meta': _bd('meta', meta),
                  'visual': _bd('visual', visual)}
            mm, mv = MDict('meta', items_to_model(meta)), \
                MDict('visual', items_to_model(visual))
            if not meta:
                mm = None      # falsy meta is not "given" for some classes
            if not visual:
                mv = None
            if mm is None or mv is None:
                # an empty explicit dict: avoid the ambiguous case entirely
                kw = {}
                mm = mv = None
        else:
            mm = mv = None
        try:
            obj = getattr(regions, cls)(o1, o2, getattr(operator, opname),
                                        **kw)
        except Exception as exc:
            raise ValidRejected(cls, f'{cls}(valid operands, {sorted(kw)}) '
                                f'raised {type(exc).__name__}: '
                                f'{str(exc)[:120]}')
        m = MRegion(cls, None,
                    mm if mm is not None else _alias_or_copy(
                        obj, 'meta', o1, m1.meta),
                    mv if mv is not None else _alias_or_copy(
                        obj, 'visual', o1, m1.visual), m1, m2, opname)
        return obj, m

    # ======================================================= C16 operations
    def op_new(self, op, rng):
        if rng.chance(0.15):
            obj, m = self.new_compound(rng, sky=rng.chance(0.5))
        else:
            obj, m = self.new_simple(rng)
        i = self.add_slot('region', obj, m)
        self.ev(slot=i, cls=m.cls)
        self.state('new', m.cls)
        self.check_eq(i, rng)

    def op_combine(self, op, rng):
        a = self.pick(op['s'], lambda s: s.kind == 'region')
        if a is None:
            return
        sky = self.slots[a].model.sky
        b = self.pick(op.get('s2', 0), lambda s: s.kind == 'region'
                      and s.model.sky == sky)
        if b is None:
            return
        opname = rng.pick(['and_', 'or_', 'xor'])
        A, B = self.slots[a], self.slots[b]
        obj = getattr(operator, opname)(A.obj, B.obj)
        m = MRegion(_cname(obj), None,
                    _alias_or_copy(obj, 'meta', A.obj, A.model.meta),
                    _alias_or_copy(obj, 'visual', A.obj, A.model.visual),
                    A.model, B.model, opname)
        i = self.add_slot('region', obj, m)
        self.ev(slot=i, a=a, b=b, operator=opname)
        self.state('combine', A.model.cls, B.model.cls, opname)
        self.check_unchanged({id(m)}, 'V1-independence', f'{opname}({a},{b})')
        self.check_eq(i, rng)

    def _copy_checks(self, how, src, obj, m_new, changed, given_objs=None):
        S = self.slots[src]
        cls = S.model.cls
        if type(obj) is not type(S.obj):
            self.violation('V2-copy-class', f'{how} of {cls} gave '
                           f'{_cname(obj)}', cls=cls)
            return
        # field by field: unnamed fields exactly equal
        names = list(getattr(S.obj, '_params', ())) + ['meta', 'visual']
        for f in names:
            if f in changed:
                continue
            # (value-level: dict order, dtype, flags are not compared)
            ca = canon_loose(getattr(S.obj, f))
            cb = canon_loose(getattr(obj, f))
            if ca != cb:
                self.violation(
                    'V2-copy-field', f'{how} of {cls}: field {f!r} of the '
                    f'copy differs from the original: {diff(ca, cb)}',
                    cls=cls, field=f)
        pred = model_eq(S.model, m_new)
        self.compare_objs(S.obj, obj, pred, f'{how} of slot {src} ({cls})',
                          cls)
        # V1b: no mutable object is reachable from both (whether or not the
        # harness knows how to edit it in place); what the caller passed in
        # **changes is shared by design
        given = {}
        for v in (given_objs or ()):
            _shared_ids(v, given)
        # (dicts id -> object: the objects stay alive while the ids are
        # compared, so that the id of a temporary cannot be seen twice)
        mine, theirs = _shared_ids(S.obj, {}), _shared_ids(obj, {})
        both = (set(mine) & set(theirs)) - set(given)
        names = sorted({type(theirs[k]).__name__ for k in both})
        if not both:
            # different array objects over the same memory
            arrs1 = [o for k, o in mine.items()
                     if isinstance(o, np.ndarray) and k not in given]
            arrs2 = [o for k, o in theirs.items()
                     if isinstance(o, np.ndarray) and k not in given]
            for x in arrs1:
                if any(x.size and y.size and np.shares_memory(x, y)
                       for y in arrs2):
                    names = [type(x).__name__ + ' memory']
                    break
        if names:
            self.violation('V1-shared-object', f'{how} of slot {src} ({cls}): '
                           f'the copy and the original share mutable '
                           f'object(s) of type {names}', cls=cls)

    def op_cell16(self, op, rng):
        """Run ``index`` of a batch visits cell ``index mod #cells`` of
        class x field (every shape parameter, meta, visual) x way of making
        one field differ {copy(field=other), assignment on a copy, the same
        value re-expressed in another angular unit}: the two regions differ
        in exactly that field and compare unequal (equal for the unit
        re-expression), both ways round, and the original is unchanged."""
        cells = c16_cells()
        cls, f, kind, how = cells[op['cell'] % len(cells)]
        if how == 'default_twice':
            return self._default_twice(cls, rng)
        obj, m = self.new_simple(rng, cls)
        a = self.add_slot('region', obj, m)
        new_tok = new_dict = None
        if f in ('meta', 'visual'):
            items = perturb_items(rng, f, getattr(m, f).d)
            if items is None or _deq(items_to_model(items),
                                     getattr(m, f).d):
                items = draw_dict_items(rng, f)
            val = _bd(f, items)
            new_dict = MDict(f, items_to_model(items))
        elif how == 'special':
            # values of an unusual but legal kind: an infinite coordinate,
            # unsigned-integer vertex arrays (and their one-pixel twin), a
            # coordinate carrying an extra attribute
            t0 = m.tok[f]
            if not isinstance(t0, int):
                return
            deco = {'pixpos': 'infx', 'skypos': 'obst', 'skyverts': 'obst',
                    'pixverts': 'vuint'}[kind]
            val = mk_value(kind, [deco, t0])
            new_tok = [deco, t0]
            how = 'copy' if rng.chance(0.5) else 'assign'
            special = True
        elif how in ('tol_in', 'tol_out'):
            # the same position just inside / just outside the documented
            # relative tolerance of pixel positions (one coordinate)
            t0 = m.tok[f]
            if not isinstance(t0, int):
                return
            if kind == 'pixpos':
                deco = rng.pick(['in9x', 'in9y'] if how == 'tol_in'
                                else ['out11x', 'out11y'])
            else:
                deco = 'vin9' if how == 'tol_in' else 'vout11'
            val = mk_value(kind, [deco, t0])
            new_tok = t0 if how == 'tol_in' else [deco, t0]
            if how == 'tol_out' and canon(val) == canon(mk_value(kind, t0)):
                return
            how = 'copy' if rng.chance(0.5) else 'assign'
        elif how == 'unit':
            import astropy.units as u
            canonical = mk_value(kind, m.tok[f])
            units = [x for x in (u.rad, u.arcmin, u.arcsec, u.deg, u.mas)
                     if x != canonical.unit]
            val = canonical.to(units[m.tok[f] % len(units)])
            if not (bool(canonical == val) and bool(val == canonical)):
                return
            new_tok = m.tok[f]
        else:
            toks = list(range(gen.KIND_SIZES[kind]))
            start = rng.randrange(len(toks))
            val = None
            for t in toks[start:] + toks[:start]:
                if _ntok(t) == _ntok(m.tok[f]):
                    continue
                cand = mk_value(kind, t)
                ordered = True                # keep an annulus ordered
                for inner, outer in gen.ANNULUS_PAIRS.get(cls, []):
                    if f in (inner, outer):
                        ov = getattr(obj, outer if f == inner else inner)
                        ordered = ordered and _strictly(cand, ov, f == inner)
                if not ordered:
                    continue
                val, new_tok = cand, t
                break
            if val is None:
                return
        try:
            if how == 'assign':
                c = obj.copy()
                setattr(c, f, val)
            else:
                c = obj.copy(**{f: val})
        except Exception as exc:
            self.violation('V2-copy-raises', f'{cls}: {how} of {f!r} raised '
                           f'{exc!r}', cls=cls, field=f)
            return
        mc = mirror(c, m)
        if new_dict is not None:
            setattr(mc, f, new_dict)
        else:
            mc.tok[f] = new_tok
        self._copy_checks(f'{how}({f})', a, c, mc, {f}, given_objs=[val])
        i = self.add_slot('region', c, mc)
        if new_tok is not None and isinstance(new_tok, list) and \
                new_tok[0] in ('infx', 'obst', 'vuint'):
            # ... which is equal to itself, to its own copy, and (for the
            # integer vertices) to its one-pixel twin, from both sides
            self.compare_objs(c, c, True, f'{cls} with a special {f} and '
                              'itself', cls)
            try:
                c2 = c.copy()
            except Exception as exc:
                self.violation('V2-copy-raises', f'copy() of {cls} with a '
                               f'special {f} raised {exc!r}', cls=cls)
                return
            self.compare_objs(c, c2, True, f'{cls} with a special {f} and '
                              'its copy', cls)
            if new_tok[0] == 'vuint':
                tw = obj.copy(**{f: mk_value(kind, ['vuint1', new_tok[1]])})
                self.compare_objs(c, tw, True, f'{cls}: unsigned-integer '
                                  'vertices and their one-pixel twin', cls)
                self.compare_objs(tw, c, True, f'{cls}: one-pixel twin and '
                                  'the unsigned-integer vertices', cls)
        self.ev(slot=i, src=a, cls=cls, field=f, how=how)
        self.state('cell16', cls, f, how)
        self.check_unchanged({id(mc), id(mc.meta), id(mc.visual)},
                             'V1-independence', f'{how}({f}) on a copy of '
                             f'slot {a}')

    def _default_twice(self, cls, rng):
        """Two regions of one class built with the constructor's default
        angle are as independent as any two regions: editing one (the
        everyday ``region.angle += x``) shows in neither the other nor in a
        region built afterwards."""
        import astropy.units as u
        import regions
        made = []
        for _ in range(2):
            toks = gen.draw_tokens(rng, cls)
            toks['angle'] = 0
            params = {g: mk_value(k, toks[g]) for g, k in gen.ALL_CLASSES[cls]
                      if g != 'angle'}
            try:
                o = getattr(regions, cls)(**params)
            except Exception as exc:
                raise ValidRejected(cls, f'{cls}(default angle) raised '
                                    f'{exc!r}')
            mm = MRegion(cls, toks, MDict('meta'), MDict('visual'))
            made.append((self.add_slot('region', o, mm), o, mm, params))
        (i1, o1, m1, p1), (i2, o2, m2, _) = made
        # (values that are no menu value and no value of the in-place edits:
        # the model identifies an edited field by a token of its own)
        step = (rng.pick([7.25, 11.5, -13.75]) + 0.0625 * self.nmut) * u.deg
        o1.angle += step
        self.nmut += 1
        m1.tok['angle'] = ['mut', 0, self.nmut]
        self.ev(slot=i1, cls=cls, what=f'angle += {step}')
        self.state('default_twice', cls)
        self.check_unchanged({id(m1)}, 'V1-independence',
                             f'{cls}: angle += {step} on slot {i1} (both '
                             'built with the default angle)')
        try:
            o3 = getattr(regions, cls)(**p1)
            a3 = o3.angle
        except Exception as exc:
            self.violation('V0-valid-construction-raises', f'{cls}(default '
                           f'angle) after angle += on another region: '
                           f'{exc!r}', cls=cls)
            return
        if not same_value(a3, 0.0 * u.deg):
            self.violation('V1-independence', f'{cls} built with the default '
                           f'angle AFTER angle += {step} on another region '
                           f'has angle {a3!r}', cls=cls)

    def op_copy(self, op, rng):
        a = self.pick(op['s'], lambda s: s.kind == 'region')
        if a is None:
            return
        S = self.slots[a]
        how = rng.pick(['copy', 'copy', 'deepcopy', 'rebuild'])
        if how == 'rebuild' and S.model.compound:
            how = 'copy'
        try:
            if how == 'rebuild':
                # the documented building blocks of a copy: PixCoord.copy(),
                # RegionMeta.copy(), RegionVisual.copy() (what the pixel<->sky
                # conversions use) - each must be independent as well
                from regions import PixCoord
                kw = {}
                for f, _ in S.model.fields():
                    v = getattr(S.obj, f)
                    kw[f] = v.copy() if isinstance(v, PixCoord) \
                        else copy.deepcopy(v)
                obj = type(S.obj)(**kw, meta=S.obj.meta.copy(),
                                  visual=S.obj.visual.copy())
            else:
                obj = S.obj.copy() if how == 'copy' else copy.deepcopy(S.obj)
        except Exception as exc:
            self.violation('V2-copy-raises', f'{how}() of {S.model.cls} '
                           f'raised {exc!r}', cls=S.model.cls)
            self.ev(src=a, how=how, outcome='raise')
            return
        m = mirror(obj, S.model)
        self._copy_checks(how, a, obj, m, ())
        i = self.add_slot('region', obj, m)
        self.ev(slot=i, src=a, how=how, cls=S.model.cls)
        self.state('copy', how, S.model.cls)
        self.check_unchanged({id(m)}, 'V1-independence', f'{how}({a})')
        self.probe_copy(i, rng, src=a)

    def op_copy_changes(self, op, rng):
        a = self.pick(op['s'], lambda s: s.kind == 'region')
        if a is None:
            return
        S = self.slots[a]
        m = mcopy(S.model)
        changes = {}
        desc = {}
        if S.model.compound:
            names = ['meta', 'visual', 'region1', 'region2', 'operator']
        else:
            names = [f for f, _ in S.model.fields()] + ['meta', 'visual']
        k = rng.weighted([(1, 5), (2, 3), (3, 1)])
        chosen = []
        for _ in range(k):
            f = rng.pick(names)
            if f not in chosen:
                chosen.append(f)
        kinds = dict(S.model.fields())
        for f in chosen:
            if f in ('meta', 'visual'):
                items = None
                if rng.chance(0.5):
                    # differ from the original in exactly one entry
                    items = perturb_items(rng, f, getattr(S.model, f).d)
                if items is None:
                    items = draw_dict_items(rng, f)
                changes[f] = _bd(f, items)
                setattr(m, f, MDict(f, items_to_model(items)))
                desc[f] = items
            elif f == 'operator':
                opn = rng.pick(['and_', 'or_', 'xor'])
                changes[f] = getattr(operator, opn)
                m.op = opn
                desc[f] = opn
            elif f in ('region1', 'region2'):
                cls_pool = sorted(gen.SKY_CLASSES if S.model.sky
                                  else gen.PIXEL_CLASSES)
                o, mm = self.new_simple(rng, rng.pick(cls_pool))
                changes[f] = o
                setattr(m, 'r1' if f == 'region1' else 'r2', mm)
                desc[f] = mm.cls
            else:
                kind = kinds[f]
                same = rng.chance(0.4)
                if same and isinstance(S.model.tok[f], int):
                    # the same menu value, or a boundary variant of it
                    tok = decorate(rng, kind, S.model.tok[f])
                else:
                    tok = decorate(rng, kind,
                                   rng.randrange(gen.KIND_SIZES[kind]))
                changes[f] = mk_value(kind, tok)
                m.tok[f] = tok
                desc[f] = tok
        # keep annuli ordered (an invalid combination is C17's business)
        def _base(t):
            return t[1] if isinstance(t, list) and t[0] in ('ulp', 'mut') \
                else t
        for inner, outer in gen.ANNULUS_PAIRS.get(S.model.cls, []):
            ti, to = _base(m.tok[inner]), _base(m.tok[outer])
            if not (isinstance(ti, int) and isinstance(to, int) and ti < to):
                self.ev(src=a, changes=desc, outcome='skipped-unordered')
                return
        try:
            obj = S.obj.copy(**changes)
        except Exception as exc:
            self.violation('V2-copy-raises', f'copy(**{sorted(changes)}) of '
                           f'{S.model.cls} raised {exc!r}', cls=S.model.cls)
            self.ev(src=a, changes=desc, outcome='raise')
            return
        if S.model.compound and ('meta' not in chosen or
                                 'visual' not in chosen):
            pass
        # re-derive the model from the actual copy (internal alias structure
        # mirrored, see ``mirror``) and apply the named changes to it
        planned = m
        m = mirror(obj, S.model)
        for f in changes:
            if f in ('meta', 'visual'):
                setattr(m, f, getattr(planned, f))
            elif f == 'region1':
                m.r1 = planned.r1
            elif f == 'region2':
                m.r2 = planned.r2
            elif f == 'operator':
                m.op = planned.op
            else:
                m.tok[f] = planned.tok[f]
        self._copy_checks(f'copy(**{sorted(changes)})', a, obj, m,
                          set(changes), given_objs=list(changes.values()))
        # the named fields hold exactly what was passed
        for f, v in changes.items():
            got = getattr(obj, f)
            if canon_loose(got) != canon_loose(v):
                self.violation('V2-copy-field', f'copy({f}=...) of '
                               f'{S.model.cls}: field holds '
                               f'{diff(canon_loose(v), canon_loose(got))}',
                               cls=S.model.cls, field=f)
        i = self.add_slot('region', obj, m)
        # objects passed in **changes are by-design shared with the copy and
        # belong to no other slot, so no alias bookkeeping is needed
        self.ev(slot=i, src=a, changes=desc, cls=S.model.cls)
        self.state('copy_changes', S.model.cls, tuple(sorted(changes)))
        self.check_unchanged({id(m)}, 'V1-independence',
                             f'copy({a}, **{sorted(changes)})')
        self.probe_copy(i, rng, src=a)

    def probe_copy(self, i, rng, src=None):
        """Right after a copy was made: edit the copy - or the original - in
        place through the objects it holds (0-2 edits); V1 then checks the
        other one."""
        for _ in range(rng.weighted([(0, 4), (1, 4), (2, 2)])):
            self.cur_op = 'mutate'
            t = src if (src is not None and rng.chance(0.4)) else i
            self._mutate(t, rng, inplace_only=True)
        self.cur_op = self.plan['ops'][self.step]['op']

    def op_mutate(self, op, rng):
        a = self.pick(op['s'], lambda s: s.kind == 'region')
        if a is None:
            return
        self._mutate(a, rng)

    def _mutate(self, a, rng, inplace_only=False):
        """Mutate slot ``a``.  ``inplace_only``: an edit made *through* an
        object the slot holds (coordinate, array, Quantity, nested list) -
        the kind of edit that reveals state shared between a copy and its
        original."""
        S = self.slots[a]
        m, obj = S.model, S.obj
        touched = set()
        what = None
        target_m, target_o = m, obj
        if m.compound and internal_alias(obj):
            m.eq_unknown = True
            _mark_unknown_up(self.slots, m)
        if m.compound:
            c = rng.weighted([('nested', 4), ('setdict', 2), ('dictedit', 2)])
            if inplace_only:
                c = 'nested'
            if c == 'nested':
                # descend to a simple operand
                path = []
                while target_m.compound:
                    side = rng.pick(['region1', 'region2'])
                    path.append(side)
                    if not hasattr(target_o, side):
                        # the object does not have the structure of what
                        # it was built (or copied) from
                        self.violation(
                            'V2-copy-field', f'slot {a}: '
                            f'{".".join(path[:-1]) or "the region"} is a '
                            f'{_cname(target_o)}, a compound region was '
                            f'expected there ({m.cls})', cls=m.cls)
                        self.ev(slot=a, outcome='structure-mismatch')
                        return
                    target_o = getattr(target_o, side)
                    target_m = target_m.r1 if side == 'region1' \
                        else target_m.r2
                what = '.'.join(path) + '.'
                kind_choice = rng.weighted([('setattr', 3), ('deep', 2)])
                if inplace_only:
                    kind_choice = 'deep'
            else:
                kind_choice = c
        else:
            kind_choice = rng.weighted([('setattr', 4), ('setdict', 2),
                                        ('dictedit', 4), ('deep', 4),
                                        ('reunit', 1)])
            if inplace_only:
                has_tag = isinstance(m.meta.d.get('tag'), list)
                kind_choice = 'dictedit' if has_tag and rng.chance(0.5) \
                    else 'deep'
        what = what or ''
        tm, to = target_m, target_o
        kinds = dict(tm.fields())
        try:
            if kind_choice == 'setattr' and kinds:
                f = rng.pick(sorted(kinds))
                if f in {x for p in gen.ANNULUS_PAIRS.get(tm.cls, [])
                         for x in p}:
                    pair = [p for p in gen.ANNULUS_PAIRS[tm.cls] if f in p][0]
                    other = pair[1] if f == pair[0] else pair[0]
                    ot = tm.tok[other]
                    if not isinstance(ot, int):
                        return
                    cands = [t for t in range(gen.KIND_SIZES[kinds[f]])
                             if (t < ot if f == pair[0] else t > ot)]
                    if not cands:
                        return
                    tok = rng.pick(cands)
                else:
                    tok = rng.randrange(gen.KIND_SIZES[kinds[f]])
                setattr(to, f, mk_value(kinds[f], tok))
                tm.tok[f] = tok
                touched.add(id(tm))
                what += f'{f} = menu[{tok}]'
            elif kind_choice == 'setdict':
                f = rng.pick(['meta', 'visual'])
                items = draw_dict_items(rng, f)
                val = _bd(f, items)
                if rng.chance(0.4):
                    val = dict(val)           # plain dict is converted
                setattr(to, f, val)
                setattr(tm, f, MDict(f, items_to_model(items)))
                touched.add(id(tm))
                what += f'{f} = {items}'
            elif kind_choice == 'dictedit':
                f = rng.pick(['meta', 'visual'])
                d = getattr(to, f)
                md = getattr(tm, f)
                menu = META_MENU if f == 'meta' else VISUAL_MENU
                e = rng.weighted([('set', 4), ('del', 2), ('update', 2),
                                  ('clear', 1), ('pop', 1), ('tag', 2),
                                  ('setdefault', 1), ('readd', 2)])
                if e == 'readd' and not md.d:
                    e = 'set'
                if inplace_only:
                    f, d, md, e = 'meta', getattr(to, 'meta'), tm.meta, 'tag'
                if e in ('del', 'pop') and not md.d:
                    e = 'set'
                lkeys = sorted(k for k, x in md.d.items()
                               if isinstance(x, list))
                if inplace_only:
                    lkeys = [k for k in lkeys if k == 'tag']
                if e == 'tag' and not lkeys:
                    e = 'set'
                if e == 'set':
                    k = rng.pick(sorted(menu))
                    v = rng.pick(_plain_vals(menu, k))
                    d[k] = build(v)
                    md.d[k] = build(v)
                    what += f'{f}[{k!r}] = {v!r}'
                elif e == 'del':
                    k = rng.pick(sorted(md.d))
                    del d[k]
                    del md.d[k]
                    what += f'del {f}[{k!r}]'
                elif e == 'pop':
                    k = rng.pick(sorted(md.d))
                    d.pop(k)
                    md.d.pop(k)
                    what += f'{f}.pop({k!r})'
                elif e == 'readd':
                    # remove an entry and put the same value back: the
                    # insertion order changes, the value of the dict does not
                    k = rng.pick(sorted(md.d))
                    v = d.pop(k)
                    d[k] = v
                    what += f'{f}: pop and re-add {k!r}'
                elif e == 'update':
                    items = draw_dict_items(rng, f)
                    new = {k: build(v) for k, v in items}
                    newm = items_to_model(items)
                    if f == 'visual' and rng.chance(0.4):
                        # ... through a documented alias of a key: stored
                        # (and compared, and copied) under the key itself
                        al, val_ = rng.pick([['width', 3], ['point', 'x'],
                                             ['width', 1.5], ['point', '+']])
                        new[al] = val_
                        newm.pop(VISUAL_KEYMAP[al], None)
                        new.pop(VISUAL_KEYMAP[al], None)
                        newm[VISUAL_KEYMAP[al]] = val_
                    if rng.chance(0.5):
                        d.update(new)
                    else:
                        d |= new
                    md.d.update(newm)
                    what += f'{f}.update({sorted(new)})'
                elif e == 'clear':
                    d.clear()
                    md.d.clear()
                    what += f'{f}.clear()'
                elif e == 'setdefault':
                    k = rng.pick(sorted(menu))
                    v = rng.pick(_plain_vals(menu, k))
                    d.setdefault(k, build(v))
                    md.d.setdefault(k, build(v))
                    what += f'{f}.setdefault({k!r}, {v!r})'
                elif e == 'tag':
                    self.nmut += 1
                    t = f'newtag{self.nmut}'
                    k = rng.pick(lkeys)
                    how = rng.pick(['append', 'append', 'setitem', 'pop',
                                    'reverse'])
                    if how in ('setitem', 'pop') and not md.d[k]:
                        how = 'append'
                    if how == 'reverse' and (
                            len(md.d[k]) < 2 or md.d[k] == md.d[k][::-1]):
                        how = 'append'
                    for L in (d[k], md.d[k]):
                        if how == 'append':
                            L.append(t)
                        elif how == 'setitem':
                            L[-1] = t
                        elif how == 'pop':
                            L.pop()
                        else:
                            L.reverse()
                    what += f"{f}[{k!r}] list edited in place ({how})"
                touched.add(id(md))
                if m.compound:
                    m.eq_unknown = True
                    _mark_unknown_up(self.slots, m)
            elif kind_choice == 'deep' and kinds:
                # In-place edit through a public accessor.  The new value is
                # SET by the harness to base + 0.001 * (n + 1), where base is
                # the menu value of the field's (original) token and n a
                # per-run counter: unique, well separated from every menu
                # value and from every other edited value (beyond the 1e-5
                # pixel tolerance), and small enough to keep annuli ordered.
                f = rng.pick(sorted(kinds))
                kind = kinds[f]
                t0 = tm.tok[f]
                if isinstance(t0, list) and t0[0] in ('derived', 'obst',
                                                       'vuint', 'vuint1',
                                                       'infx'):
                    # (special-valued fields are not edited in place: the
                    # harness's own arithmetic on them would not be exact)
                    return
                base_tok = t0[1] if isinstance(t0, list) else t0
                self.nmut += 1
                if self.nmut > 90:
                    return
                # pixel positions are compared with a tolerance (4.2e-4 at
                # |x| = 42): their edits are 0.01 apart and at least 0.02 away
                # from the menu value and its 'near'/'far' variants (<= 0.0042)
                eps = (0.01 if kind in ('pixpos', 'pixverts') else 0.001) * \
                    (self.nmut + 1)
                v = getattr(to, f)
                seen0 = canon(v)
                base = mk_value(kind, base_tok)
                if kind == 'pixpos':
                    if rng.chance(0.5):
                        v.x = base.x + eps
                    else:
                        v.y = base.y - eps
                    what += f'{f}.x/y = base+-{eps:.3f} (in place)'
                elif kind == 'pixverts':
                    i = rng.randrange(len(v.x))
                    ax = rng.pick(['x', 'y'])
                    arr = getattr(v, ax)
                    if not arr.flags.writeable:
                        return
                    arr[i] = getattr(base, ax)[i] + eps
                    what += f'{f}.{ax}[{i}] = base+{eps:.3f} (in place)'
                elif kind in ('asize', 'angle'):
                    newq = (base.value + eps) * base.unit
                    v -= v
                    v += newq.to(v.unit) if kind == 'angle' else newq
                    if v.unit != base.unit:
                        # re-expressed earlier: make it canonical again
                        setattr(to, f, newq)
                    what += f'{f} = base+{eps:.3f} (in place Quantity)'
                elif kind == 'skyverts':
                    import astropy.units as u
                    from astropy.coordinates import SkyCoord
                    i = rng.randrange(len(v))
                    new = SkyCoord((base[i].spherical.lon.deg + eps) * u.deg,
                                   (base[i].spherical.lat.deg + eps) * u.deg,
                                   frame=v.frame)
                    v[i] = new
                    what += f'{f}[{i}] = SkyCoord(base+{eps:.3f}) (in place)'
                else:
                    return
                if canon(getattr(to, f)) == seen0:
                    # the accessor handed out a copy: the edit did not reach
                    # the region (which is the library's business) - and then
                    # nothing at all may have changed
                    self.ev(slot=a, what=what + ' [did not reach the region]')
                    self.check_unchanged(set(), 'V1-independence',
                                         f'in-place edit of a value handed '
                                         f'out by slot {a}')
                    return
                tm.tok[f] = ['mut', base_tok, self.nmut]
                touched.add(id(tm))
            elif kind_choice == 'reunit' and kinds:
                # Equality under unit conversion is an astropy float matter
                # and is not transitive; the harness therefore uses exactly
                # one alternative unit per menu token, and only when astropy
                # itself reports equality with the canonical value in both
                # directions.  A second reunit restores the canonical value.
                import astropy.units as u
                cand = [f for f, k in kinds.items()
                        if k in ('angle', 'asize')
                        and isinstance(tm.tok[f], int)]
                if not cand:
                    return
                f = rng.pick(sorted(cand))
                canonical = mk_value(kinds[f], tm.tok[f])
                units = [u.rad, u.arcmin, u.arcsec, u.deg, u.mas]
                units = [x for x in units if x != canonical.unit]
                unit = units[tm.tok[f] % len(units)]
                if getattr(to, f).unit != canonical.unit:
                    setattr(to, f, canonical)
                    what += f'{f} restored to {canonical.unit}'
                else:
                    q2 = canonical.to(unit)
                    if not (bool(canonical == q2) and bool(q2 == canonical)):
                        self.ev(slot=a, what=f'{f}.to({unit}) not exactly '
                                'equal per astropy; skipped',
                                outcome='skipped')
                        return
                    setattr(to, f, q2)
                    what += f'{f} re-expressed in {unit}'
                touched.add(id(tm))
                self.state('reunit', tm.cls, f, str(unit))
            else:
                return
        except Exception as exc:
            self.violation('V0-valid-mutation-raises',
                           f'valid mutation {what or kind_choice} on '
                           f'{tm.cls} raised {exc!r}', cls=tm.cls)
            self.ev(slot=a, what=what, outcome='raise')
            return
        self.ev(slot=a, cls=m.cls, what=what)
        self.state('mutate', tm.cls, kind_choice, what.split(' ')[0].split('[')[0])
        self.check_unchanged(touched, 'V1-independence',
                             f'mutation of slot {a}: {what}')
        self.check_eq(a, rng)

    # ---- lists
    def op_newlist(self, op, rng):
        regs = [i for i, s in enumerate(self.slots) if s.kind == 'region']
        if not regs:
            return
        n = rng.randint(0, min(5, len(regs)))
        members = [regs[rng.randrange(len(regs))] for _ in range(n)]
        from regions import Regions
        obj = Regions([self.slots[i].obj for i in members])
        m = MList([self.slots[i].model for i in members])
        i = self.add_slot('list', obj, m)
        self.ev(slot=i, members=members)
        self.state('newlist', n)

    def op_listderive(self, op, rng):
        a = self.pick(op['s'], lambda s: s.kind == 'list')
        if a is None:
            return
        S = self.slots[a]
        n = len(S.model.items)
        how = rng.pick(['slice', 'slice', 'copy', 'getitem', 'copy.copy',
                        'Regions(list)'])
        if how == 'slice' and rng.chance(0.25):
            k = rng.randint(0, n)
            sl = slice(k, k)                       # an empty slice
            obj = S.obj[sl]
            m = MList([])
            what = f'[{k}:{k}]'
        elif how == 'slice':
            lo = rng.randint(-1, n)
            hi = rng.randint(-1, n + 1)
            st = rng.pick([None, None, 1, 2, -1])
            sl = slice(lo if rng.chance(0.7) else None,
                       hi if rng.chance(0.7) else None, st)
            obj = S.obj[sl]
            m = MList(S.model.items[sl])
            what = f'[{sl.start}:{sl.stop}:{sl.step}]'
        elif how == 'copy':
            obj = S.obj.copy()
            m = MList(S.model.items)
            what = '.copy()'
        elif how == 'copy.copy':
            obj = copy.copy(S.obj)
            m = MList(S.model.items)
            what = ' through copy.copy()'
        elif how == 'Regions(list)':
            from regions import Regions
            obj = Regions(S.obj)              # a new list of the same members
            m = MList(S.model.items)
            what = ' through Regions(regions)'
        else:
            if n == 0:
                return
            j = rng.randrange(-n, n)
            got = S.obj[j]
            want = S.model.items[j]
            idx = [k for k, s in enumerate(self.slots) if s.model is want]
            if not idx or got is not self.slots[idx[0]].obj:
                self.violation('V4-list-getitem', f'Regions[{j}] did not '
                               'return the member stored at that position',
                               cls='Regions')
            self.ev(slot=a, what=f'[{j}]')
            return
        from regions import Regions
        if not isinstance(obj, Regions):
            self.violation('V4-list-type', f'Regions{what} returned '
                           f'{type(obj).__name__}', cls='Regions')
            return
        if len(obj) != len(m.items) or any(
                x is not self._obj_of(mm) for x, mm in
                zip(obj.regions, m.items)):
            self.violation('V4-list-content', f'Regions{what} does not hold '
                           'the expected members', cls='Regions')
        i = self.add_slot('list', obj, m)
        self.ev(slot=i, src=a, what=what)
        self.state('listderive', how)
        self.check_unchanged({id(m)}, 'V1-independence',
                             f'Regions{what} of slot {a}')

    def _obj_of(self, model):
        for s in self.slots:
            if s.model is model:
                return s.obj
        return None

    def op_listedit(self, op, rng):
        a = self.pick(op['s'], lambda s: s.kind == 'list')
        if a is None:
            return
        S = self.slots[a]
        regs = [i for i, s in enumerate(self.slots) if s.kind == 'region']
        n = len(S.model.items)
        e = rng.weighted([('append', 3), ('extend', 2), ('insert', 2),
                          ('pop', 2), ('reverse', 2), ('extend_regions', 3)])
        if e in ('append', 'insert', 'extend') and not regs:
            return
        if e == 'pop' and n == 0:
            e = 'reverse'
        if e == 'append':
            r = regs[rng.randrange(len(regs))]
            S.obj.append(self.slots[r].obj)
            S.model.items.append(self.slots[r].model)
            what = f'append(slot {r})'
        elif e == 'extend':
            rs = [regs[rng.randrange(len(regs))]
                  for _ in range(rng.randint(0, 3))]
            S.obj.extend([self.slots[r].obj for r in rs])
            S.model.items.extend(self.slots[r].model for r in rs)
            what = f'extend(slots {rs})'
        elif e == 'extend_regions':
            b = self.pick(op.get('s2', 0), lambda s: s.kind == 'list')
            B = self.slots[b]
            S.obj.extend(B.obj)
            S.model.items.extend(list(B.model.items))
            what = f'extend(Regions slot {b})'
        elif e == 'insert':
            r = regs[rng.randrange(len(regs))]
            j = rng.randint(-n - 1, n + 1)
            S.obj.insert(j, self.slots[r].obj)
            S.model.items.insert(j, self.slots[r].model)
            what = f'insert({j}, slot {r})'
        elif e == 'pop':
            j = rng.randrange(-n, n)
            got = S.obj.pop(j) if rng.chance(0.7) or j != -1 else S.obj.pop()
            want = S.model.items.pop(j)
            if got is not self._obj_of(want):
                self.violation('V4-list-pop', f'pop({j}) returned another '
                               'object than the member at that position',
                               cls='Regions')
            what = f'pop({j})'
        else:
            S.obj.reverse()
            S.model.items.reverse()
            what = 'reverse()'
        if len(S.obj) != len(S.model.items) or any(
                x is not self._obj_of(mm)
                for x, mm in zip(S.obj.regions, S.model.items)):
            self.violation('V4-list-content', f'after {what} the list does '
                           'not hold the expected members in order',
                           cls='Regions')
        self.ev(slot=a, what=what)
        self.state('listedit', e)
        self.check_unchanged({id(S.model)}, 'V1-independence',
                             f'{what} on list slot {a}')

    # ---- equality
    def compare_objs(self, A, B, pred, where, cls):
        self.stats['compares'] += 1
        try:
            ab = A == B
            ba = B == A
            ne = A != B
        except Exception as exc:
            self.violation('V3-eq-raises', f'{where}: comparison raised '
                           f'{type(exc).__name__}: {str(exc)[:150]}', cls=cls)
            return
        if not isinstance(ab, (bool, np.bool_)):
            self.violation('V3-eq-type', f'{where}: == returned '
                           f'{type(ab).__name__}', cls=cls)
            return
        if bool(ab) != bool(ba):
            self.violation('V3-eq-symmetry', f'{where}: a==b is {ab} but '
                           f'b==a is {ba}', cls=cls)
        if bool(ne) == bool(ab):
            self.violation('V3-ne-consistency', f'{where}: a==b is {ab} and '
                           f'a!=b is {ne}', cls=cls)
        if pred is None:
            self.stats['eq_unpredicted'] += 1
            return
        self.stats['eq_true' if pred else 'eq_false'] += 1
        if bool(ab) != pred:
            tag = ''
            if _has_array_entry(A) or _has_array_entry(B):
                tag = 'array-valued-entry:' + (
                    'equal-expected' if pred else 'unequal-expected')
            self.violation(
                'V3-eq-model', f'{where}: a==b is {ab}, the model says '
                f'{pred} (a={A!r} meta={getattr(A, "meta", None)} '
                f'visual={getattr(A, "visual", None)}; b={B!r} '
                f'meta={getattr(B, "meta", None)} '
                f'visual={getattr(B, "visual", None)})', cls=cls, value=tag)

    def check_eq(self, a, rng):
        S = self.slots[a]
        if S.kind != 'region':
            return
        self.compare_objs(S.obj, S.obj, None if S.model.eq_unknown else True,
                          f'slot {a} with itself', S.model.cls)
        if rng.chance(0.2):
            # something that is not a region at all: unequal, never raising
            from regions import Regions
            other = rng.pick([None, 5, 'circle', (1, 2), S.obj.meta,
                              type(S.obj), Regions([S.obj]), 1.5,
                              build({'t': 'pix', 'x': 1.0, 'y': 2.0})])
            try:
                r1, r2, r3 = S.obj == other, S.obj != other, other == S.obj
                if bool(r1) or not bool(r2) or bool(r3):
                    self.violation('V3-eq-model', f'slot {a} '
                                   f'({S.model.cls}) compared with a '
                                   f'{type(other).__name__}: == gives {r1!r}, '
                                   f'!= gives {r2!r}, reflected == gives '
                                   f'{r3!r}', cls=S.model.cls)
            except Exception as exc:
                self.violation('V3-eq-raises', f'slot {a} ({S.model.cls}) '
                               f'compared with a {type(other).__name__} '
                               f'raised {type(exc).__name__}: '
                               f'{str(exc)[:120]}', cls=S.model.cls)
        others = [i for i, s in enumerate(self.slots)
                  if s.kind == 'region' and i != a]
        # prefer same-class partners (copies), they are the informative ones
        same = [i for i in others if self.slots[i].model.cls == S.model.cls]
        chosen = []
        for pool, k in ((same, 3), (others, 2)):
            pool = list(pool)
            for _ in range(min(k, len(pool))):
                chosen.append(pool.pop(rng.randrange(len(pool))))
        for b in dict.fromkeys(chosen):
            T = self.slots[b]
            self.compare_objs(S.obj, T.obj, model_eq(S.model, T.model),
                              f'slot {a} ({S.model.cls}) vs slot {b} '
                              f'({T.model.cls})', S.model.cls)

    VARIANTS = {
        'RegularPolygonPixelRegion': ('PolygonPixelRegion', 'vertices'),
        'TextPixelRegion': ('PointPixelRegion', None),
        'TextSkyRegion': ('PointSkyRegion', None),
        'EllipsePixelRegion': ('RectanglePixelRegion', None),
        'RectanglePixelRegion': ('EllipsePixelRegion', None),
        'EllipseSkyRegion': ('RectangleSkyRegion', None),
        'RectangleSkyRegion': ('EllipseSkyRegion', None),
        'EllipseAnnulusPixelRegion': ('RectangleAnnulusPixelRegion', None),
        'RectangleAnnulusPixelRegion': ('EllipseAnnulusPixelRegion', None),
        'EllipseAnnulusSkyRegion': ('RectangleAnnulusSkyRegion', None),
        'RectangleAnnulusSkyRegion': ('EllipseAnnulusSkyRegion', None),
    }

    def op_classvariant(self, op, rng):
        """A region of ANOTHER class (base class, or sibling class) holding
        exactly the same parameter values, meta and visual: equality must
        fail because the class differs."""
        a = self.pick(op['s'], lambda s: s.kind == 'region'
                      and s.model.cls in self.VARIANTS)
        if a is None:
            return
        import regions
        S = self.slots[a]
        other, special = self.VARIANTS[S.model.cls]
        Other = getattr(regions, other)
        names = list(Other._params)
        try:
            kw = {n: copy.deepcopy(getattr(S.obj, n)) for n in names}
            obj = Other(**kw, meta=copy.deepcopy(S.obj.meta),
                        visual=copy.deepcopy(S.obj.visual))
        except Exception as exc:
            raise ValidRejected(other, f'{other} from the values of a '
                                f'{S.model.cls} raised {exc!r}')
        m = mcopy(S.model)
        m.cls = other
        # a field the source class does not have (polygon vertices of a
        # regular polygon) is a function of ALL the source's tokens
        src_key = repr(sorted((k, _ntok(v)) for k, v in S.model.tok.items()))
        m.tok = {n: (S.model.tok[n] if n in S.model.tok
                     else ['derived', src_key]) for n in names}
        if any(isinstance(t, list) and t[0] == 'derived'
               for t in m.tok.values()):
            # the vertices of a regular polygon are whatever it computed at
            # construction; the model does not predict equality of such
            # polygons with anything but their source (checked below)
            m.eq_unknown = True
        i = self.add_slot('region', obj, m)
        self.ev(slot=i, src=a, cls=other, of=S.model.cls)
        self.state('classvariant', S.model.cls, other)
        self.compare_objs(S.obj, obj, False,
                          f'slot {a} ({S.model.cls}) vs the {other} with the '
                          f'same parameter values (slot {i})', S.model.cls)
        self.compare_objs(obj, S.obj, False,
                          f'{other} (slot {i}) vs the {S.model.cls} it was '
                          f'built from (slot {a})', other)
        self.check_unchanged({id(m)}, 'V1-independence',
                             f'classvariant({a})')

    def op_compare(self, op, rng):
        a = self.pick(op['s'], lambda s: s.kind == 'region')
        if a is None:
            return
        self.ev(slot=a)
        self.check_eq(a, rng)

    # ======================================================= C17 operations
    def c17_outcome(self, fn, invalid, what, cls, field='', value='',
                    target=None, delete=False):
        """Run ``fn`` and apply A1/A2/A3. Returns ('ok', result) or
        ('rejected', exc) or ('wrongly-accepted', result)."""
        before = [canon(s.obj) for s in self.slots]
        try:
            res = fn()
            raised = None
        except Exception as exc:
            raised = exc
        if invalid:
            self.stats['invalid_kinds'][value or what.split(' ')[0]] = \
                self.stats['invalid_kinds'].get(value or what.split(' ')[0], 0) + 1
        if raised is not None:
            self.stats['rejected'] += 1
            if invalid and not delete and not isinstance(raised, ALLOWED_EXC):
                self.violation(
                    'A1-exception-class', f'{what}: rejected with '
                    f'{type(raised).__name__}: {str(raised)[:120]} (allowed: '
                    'ValueError/TypeError/KeyError)', cls=cls, field=field,
                    value=value)
            if not invalid:
                self.violation(
                    'A3-valid-rejected', f'{what}: a value inside the domain '
                    f'was rejected with {type(raised).__name__}: '
                    f'{str(raised)[:120]}', cls=cls, field=field, value=value)
            # A2: nothing changed anywhere
            for i, s in enumerate(self.slots):
                c = canon(s.obj)
                if c != before[i]:
                    self.violation(
                        'A2-not-atomic', f'{what}: rejected with '
                        f'{type(raised).__name__} but slot {i} '
                        f'({_cname(s.obj)}) changed: {diff(before[i], c)}',
                        cls=cls, field=field, value=value)
                self.last[i] = c
            self.state(self.cur_op, cls, field, value, 'rejected',
                       type(raised).__name__)
            return 'rejected', raised
        self.stats['accepted'] += 1
        self.state(self.cur_op, cls, field, value, 'accepted')
        if invalid:
            self.violation(
                'A1-accepted', f'{what}: a value outside the documented '
                'domain was accepted', cls=cls, field=field, value=value)
            for i, s in enumerate(self.slots):
                self.last[i] = canon(s.obj)
            return 'wrongly-accepted', res
        # valid: only the target may change
        for i, s in enumerate(self.slots):
            c = canon(s.obj)
            if target is not None and (i == target or self.aliases(i, target)):
                self.last[i] = c
                continue
            if c != before[i]:
                self.violation('A2-collateral', f'{what}: slot {i} changed '
                               f'although it is not the target: '
                               f'{diff(before[i], c)}', cls=cls, field=field)
                self.last[i] = c
        return 'ok', res

    def aliases(self, i, j):
        return bool(reach(self.slots[i].model) & reach(self.slots[j].model))

    def op_construct(self, op, rng):
        cls = rng.pick(sorted(gen.ALL_CLASSES))
        fields = gen.ALL_CLASSES[cls]
        toks = gen.draw_tokens(rng, cls)
        invalid = rng.chance(0.6)
        params = {f: valid_variant(rng, k, toks[f]) for f, k in fields}
        meta_items = draw_dict_items(rng, 'meta') if rng.chance(0.5) else []
        visual_items = draw_dict_items(rng, 'visual') if rng.chance(0.5) else []
        meta = _bd('meta', meta_items)
        visual = _bd('visual', visual_items)
        kw = dict(params)
        field = value = ''
        if invalid:
            c = rng.weighted([('field', 6), ('order', 2 if cls in
                                              gen.ANNULUS_PAIRS else 0),
                              ('metakey', 2)])
            if c == 'field':
                cands = [(f, k) for f, k in fields if invalid_values(k)]
                if not cands:
                    c = 'metakey'
                else:
                    field, kind = rng.pick(cands)
                    value, rec = rng.pick(invalid_values(kind))
                    kw[field] = build_invalid(rec)
                    value = f'{kind}:{value}'
            if c == 'order':
                inner, outer = rng.pick(gen.ANNULUS_PAIRS[cls])
                kind = dict(fields)[inner]
                t = rng.randrange(1, gen.KIND_SIZES[kind])
                t2 = t if rng.chance(0.4) else rng.randrange(0, t)
                kw[inner] = mk_value(kind, t)
                kw[outer] = mk_value(kind, t2)
                field, value = inner + '/' + outer, 'order:' + (
                    'equal' if t == t2 else 'inverted')
            if c == 'metakey':
                which = rng.pick(['meta', 'visual'])
                d = {'name' if which == 'meta' else 'color': 'ok',
                     bad_key(rng, which): 1}
                if rng.chance(0.25):
                    name, rec = rng.pick(NON_MAPPINGS)
                    d = build_invalid(rec)
                elif rng.chance(0.3):
                    d = _other_kind_meta(rng, which)
                if which == 'meta':
                    meta = d
                else:
                    visual = d
                field, value = which, 'dict:badkey'
        if rng.chance(0.8) or invalid and field in ('meta', 'visual'):
            kw['meta'] = meta
            kw['visual'] = visual
        else:
            meta_items, visual_items = [], []
        import regions
        what = f'{cls}({field}={value})' if invalid else f'{cls}(valid)'
        default_angle = False
        if 'angle' in kw and 'angle' not in field and rng.chance(0.2):
            # the optional rotation angle left at its default
            del kw['angle']
            del params['angle']
            default_angle = True
        if rng.chance(0.4):
            # the same call with the shape parameters given positionally
            order = [f for f, _ in fields if f in kw]
            pos = [kw.pop(f) for f in order]
            call = lambda: getattr(regions, cls)(*pos, **kw)  # noqa
        else:
            call = lambda: getattr(regions, cls)(**kw)  # noqa
        out, res = self.c17_outcome(call, invalid, what, cls, field, value)
        self.ev(cls=cls, invalid=invalid, field=field, value=value,
                outcome=out)
        if out == 'rejected':
            return
        m = MRegion(cls, toks, MDict('meta', items_to_model(meta_items)),
                    MDict('visual', items_to_model(visual_items)))
        m.stored = {}
        if out == 'wrongly-accepted':
            m.tainted.add(field)
            for p in field.split('/'):
                m.tainted.add(p)
        i = self.add_slot('region', res, m)
        if out == 'ok':
            self.readback(i, cls, params)
            if default_angle:
                import astropy.units as u
                self.readback(i, cls, {'angle': 0.0 * u.deg})

    def readback(self, i, cls, values):
        obj = self.slots[i].obj
        for f, v in values.items():
            try:
                got = getattr(obj, f)
            except Exception as exc:
                self.violation('A3-readback', f'{cls}.{f} cannot be read '
                               f'back: {exc!r}', cls=cls, field=f)
                continue
            if not same_value(got, v):
                self.violation('A3-readback', f'{cls}.{f} reads back '
                               f'{got!r}, stored {v!r}', cls=cls, field=f)

    def _augassign(self, a, rng):
        """``region.param <op>= x``: an assignment like any other - what it
        computes is validated, and if it is refused the region is as before
        (parameter objects that implement the in-place operators are edited
        before the descriptor gets to see the result)."""
        import astropy.units as u
        from regions import PixCoord
        S = self.slots[a]
        m, obj, cls = S.model, S.obj, S.model.cls
        cands = [(f, k) for f, k in m.fields()
                 if k in ('size', 'asize', 'angle', 'pixpos', 'pixverts')
                 and f not in m.tainted]
        if not cands:
            return
        f, kind = rng.pick(cands)
        cur = getattr(obj, f)
        if kind in ('size', 'asize'):
            name, fn = rng.pick([
                ('imul-neg', lambda v: operator.imul(v, -1)),
                ('imul-zero', lambda v: operator.imul(v, 0)),
                ('isub-self', lambda v: operator.isub(v, v)),
                ('imul-nan', lambda v: operator.imul(v, float('nan'))),
                ('itruediv-zero', lambda v: operator.itruediv(v, 0.0))])
        elif kind == 'angle':
            name, fn = rng.pick([
                ('imul-nan', lambda v: operator.imul(v, float('nan'))),
                ('iadd-seconds', lambda v: operator.iadd(v, 5 * u.s)),
                ('imul-inf', lambda v: operator.imul(v, float('inf')))])
        else:
            name, fn = rng.pick([
                ('iadd-array', lambda v: operator.iadd(
                    v, PixCoord(np.array([[1.0, 2.0], [3.0, 4.0]]),
                                np.array([[3.0, 4.0], [5.0, 6.0]])))),
                ('isub-array', lambda v: operator.isub(
                    v, PixCoord(np.array([[1.0, 2.0], [3.0, 4.0]]),
                                np.array([[3.0, 4.0], [5.0, 6.0]])))),
                ('iadd-number', lambda v: operator.iadd(v, 5)),
                ('isub-tuple', lambda v: operator.isub(v, (1, 2)))])
        value = f'augassign:{kind}:{name}'
        what = f'{cls}.{f} {name}'
        # the operator itself (numpy / Python arithmetic on a copy of the
        # value) may fail before the region is involved at all: only the
        # documented exception classes are of interest then
        try:
            import warnings
            with warnings.catch_warnings():
                warnings.simplefilter('ignore')
                fn(copy.deepcopy(cur))
        except ALLOWED_EXC:
            pass
        except Exception:
            return

        def call():
            import warnings
            with warnings.catch_warnings():
                warnings.simplefilter('ignore')      # numpy: divide by zero
                setattr(obj, f, fn(getattr(obj, f)))
        out, _ = self.c17_outcome(call, True, what, cls, f, value, target=a)
        self.ev(slot=a, cls=cls, field=f, value=value, invalid=True,
                outcome=out)
        if out == 'wrongly-accepted':
            m.tainted.add(f)
        elif out == 'rejected':
            # (if the parameter object was edited in place all the same, the
            # region is outside its domain from here on)
            if domain_problems(obj):
                m.tainted.add(f)
                for inner, outer in gen.ANNULUS_PAIRS.get(cls, []):
                    if f in (inner, outer):
                        m.tainted.update((inner, outer, inner + '/' + outer))

    def op_setattr(self, op, rng):
        a = self.pick(op['s'], lambda s: s.kind == 'region'
                      and not s.model.compound)
        if a is None:
            return
        if rng.chance(0.12):
            return self._augassign(a, rng)
        S = self.slots[a]
        m, obj = S.model, S.obj
        cls = m.cls
        fields = m.fields()
        invalid = rng.chance(0.6)
        c = rng.weighted([('field', 6), ('order', 3 if cls in
                                         gen.ANNULUS_PAIRS else 0),
                          ('dict', 3)])
        if c == 'field':
            cands = [(f, k) for f, k in fields
                     if (invalid_values(k) if invalid else True)]
            if not cands:
                return
            f, kind = rng.pick(cands)
            if invalid:
                value, rec = rng.pick(invalid_values(kind))
                v = build_invalid(rec)
                value = f'{kind}:{value}'
            else:
                # stay inside the cross-field constraint
                tok = rng.randrange(gen.KIND_SIZES[kind])
                for inner, outer in gen.ANNULUS_PAIRS.get(cls, []):
                    if f in (inner, outer):
                        other = outer if f == inner else inner
                        try:
                            ov = getattr(obj, other)
                            # (strictly ordered whichever side astropy
                            # converts: comparisons across units are float
                            # arithmetic and not antisymmetric at the ulp)
                            cand = [t for t in range(gen.KIND_SIZES[kind])
                                    if _strictly(mk_value(kind, t), ov,
                                                 f == inner)]
                        except Exception:
                            cand = []
                        if not cand:
                            return
                        tok = rng.pick(cand)
                v = valid_variant(rng, kind, tok)
                # a spelling (e.g. float32) must not break the ordering the
                # token was chosen for
                for inner, outer in gen.ANNULUS_PAIRS.get(cls, []):
                    if f in (inner, outer):
                        ov = getattr(obj, outer if f == inner else inner)
                        try:
                            ok = _strictly(v, ov, f == inner)
                        except Exception:
                            ok = False
                        if not ok:
                            v = mk_value(kind, tok)
                            if not _strictly(v, ov, f == inner):
                                return
                value = f'{kind}:valid'
        elif c == 'order':
            inner, outer = rng.pick(gen.ANNULUS_PAIRS[cls])
            kind = dict(fields)[inner]
            invalid = True
            try:
                if rng.chance(0.5):
                    f, ref = inner, getattr(obj, outer)
                    cand = [t for t in range(gen.KIND_SIZES[kind])
                            if not (mk_value(kind, t) < ref)
                            and not (ref > mk_value(kind, t))]
                else:
                    f, ref = outer, getattr(obj, inner)
                    cand = [t for t in range(gen.KIND_SIZES[kind])
                            if not (mk_value(kind, t) > ref)
                            and not (ref < mk_value(kind, t))]
            except Exception:
                return
            if not cand:
                return
            v = mk_value(kind, rng.pick(cand))
            value = 'order:violating'
        else:
            f = rng.pick(['meta', 'visual'])
            items = draw_dict_items(rng, f)
            d = {k: build(x) for k, x in items}
            form = rng.pick(['dict', 'typed'])
            if invalid and rng.chance(0.25):
                name, rec = rng.pick(NON_MAPPINGS)
                v = build_invalid(rec)
                form = 'non-mapping'
                value = f'dict:not-a-mapping:{name}'
            elif invalid and rng.chance(0.3):
                from regions import RegionMeta, RegionVisual
                Other = RegionVisual if f == 'meta' else RegionMeta
                omenu = VISUAL_MENU if f == 'meta' else META_MENU
                ok_ = [k for k in (VISUAL_ONLY if f == 'meta' else META_ONLY)
                       if k in omenu]
                k = rng.pick(ok_)
                try:
                    v = Other({k: build(rng.pick(omenu[k]))})
                except (TypeError, ValueError) as exc:
                    raise MenuRefused(repr(exc))
                form = 'typed-other'
                value = 'dict:otherkind'
            elif invalid:
                bad = 'badkey'
                keys = list(d)
                d[bad_key(rng, f)] = 1
                if keys and rng.chance(0.5):    # bad key first
                    d = {k: d[k] for k in reversed(list(d))}
                v = d
                form = 'dict'
                value = f'dict:{bad}'
            else:
                from regions import RegionMeta, RegionVisual
                v = d if form == 'dict' else (
                    RegionMeta(d) if f == 'meta' else RegionVisual(d))
                value = f'dict:valid-{form}'
        what = f'{cls}.{f} = {value}'
        names = [g for g, _ in fields] + ['meta', 'visual']
        others0 = {g: canon(getattr(obj, g)) for g in names if g != f}
        out, _ = self.c17_outcome(lambda: setattr(obj, f, v), invalid, what,
                                  cls, f, value, target=a)
        self.ev(slot=a, cls=cls, field=f, value=value, invalid=invalid,
                outcome=out)
        if out == 'ok':
            for g, c0 in others0.items():
                c1 = canon(getattr(obj, g))
                if c1 != c0:
                    self.violation('A2-collateral', f'{what}: accepted, but '
                                   f'the field {g!r} of the same region '
                                   f'changed too: {diff(c0, c1)}', cls=cls,
                                   field=f)
            if f in ('meta', 'visual'):
                got = getattr(obj, f)
                if dict(got) != dict(v):
                    self.violation('A3-readback', f'{cls}.{f} reads back '
                                   f'{got!r}, stored {v!r}', cls=cls, field=f)
            else:
                got = getattr(obj, f)
                if not same_value(got, v):
                    self.violation('A3-readback', f'{cls}.{f} reads back '
                                   f'{got!r} (stored: {v!r})',
                                   cls=cls, field=f)
        elif out == 'wrongly-accepted':
            m.tainted.add(f)
            if c == 'order':
                m.tainted.update((inner, outer, inner + '/' + outer))

    def op_delattr(self, op, rng):
        a = self.pick(op['s'], lambda s: s.kind == 'region')
        if a is None:
            return
        S = self.slots[a]
        obj, cls = S.obj, S.model.cls
        params = list(getattr(obj, '_params', ()))
        if S.model.compound:
            params = ['region1', 'region2']
        if not params:
            return
        f = rng.pick(params)
        what = f'del {cls}.{f}'
        out, _ = self.c17_outcome(lambda: delattr(obj, f), True, what, cls,
                                  f, 'delete', target=a, delete=True)
        self.ev(slot=a, cls=cls, field=f, outcome=out)
        if out == 'wrongly-accepted':
            S.model.tainted.add(f)

    def op_dictop(self, op, rng):
        """Every dict-mutation entry point of RegionMeta/RegionVisual."""
        from regions import RegionMeta, RegionVisual
        which = rng.pick(['meta', 'visual'])
        a = self.pick(op['s'], lambda s: s.kind in ('region', 'dict')
                      and (s.kind == 'region' or s.model.kind == which))
        standalone = a is None or rng.chance(0.25)
        Cls = RegionMeta if which == 'meta' else RegionVisual
        menu = META_MENU if which == 'meta' else VISUAL_MENU
        if standalone:
            d = None
            cls = Cls.__name__
        else:
            S = self.slots[a]
            d = getattr(S.obj, which) if S.kind == 'region' else S.obj
            cls = Cls.__name__
            if not isinstance(d, dict):
                return
            if not isinstance(d, Cls):
                cls = f'{type(d).__name__} as {_cname(S.obj)}.{which}'
        invalid = rng.chance(0.6)
        good = draw_dict_items(rng, which, 2)
        gk = [[k, build(v)] for k, v in good]
        if which == 'visual' and rng.chance(0.25):
            # the documented aliases are valid keys: stored (and read back)
            # under their canonical name
            alias = rng.pick([['width', 3], ['point', 'x'], ['width', 1.5],
                              ['point', '+']])
            if VISUAL_KEYMAP[alias[0]] not in [k for k, _ in gk]:
                gk.append(alias)
        badk = bad_key(rng, which)
        Other = RegionVisual if which == 'meta' else RegionMeta
        entry = rng.pick(['setitem', 'update_map', 'update_pairs',
                          'update_kw', 'setdefault', 'ior', 'ctor_map',
                          'ctor_pairs', 'ctor_kw', 'fromkeys', 'update_meta',
                          'update_obj', 'ior_obj', 'ctor_obj',
                          'update_map_kw', 'ctor_map_kw', 'union_assign'])
        if entry == 'union_assign' and (d is None or S.kind != 'region'):
            entry = 'ctor_map'
        if d is None and not entry.startswith(('ctor', 'fromkeys')):
            entry = rng.pick(['ctor_map', 'ctor_pairs', 'ctor_kw',
                              'fromkeys'])
        items = list(gk)
        if invalid:
            pos = rng.randint(0, len(items))     # valid keys before the bad one
            items.insert(pos, [badk, 1])
        if not items:
            k_ = rng.pick(sorted(menu))
            items = [[k_, build(rng.pick(_plain_vals(menu, k_)))]]
        if entry in ('update_kw', 'ctor_kw', 'update_map_kw', 'ctor_map_kw'):
            if any(not (isinstance(k, str) and k.isidentifier())
                   for k, _ in items):
                entry = 'update_map' if entry.startswith('update') \
                    else 'ctor_map'
        k0, v0 = items[0] if not invalid else [badk, 1]
        if entry == 'setdefault' and not invalid and d is not None and \
                which == 'visual' and rng.chance(0.5):
            # through the documented alias of a key that is already set
            al = [a_ for a_, c_ in sorted(VISUAL_KEYMAP.items()) if c_ in d]
            if al:
                k0 = rng.pick(al)
                v0 = {'width': 7, 'point': '+'}[k0]
        fn = None
        if entry == 'setitem':
            fn = lambda: d.__setitem__(k0, v0)  # noqa
            desc = f'[{k0!r}] = ...'
        elif entry == 'update_map':
            fn = lambda: d.update(dict(items))  # noqa
            desc = f'update({[k for k, _ in items]})'
        elif entry in ('update_map_kw', 'ctor_map_kw'):
            # a mapping AND keyword arguments in one call; the keyword part
            # holds the later items (so the bad key, if any, may be in either)
            cut = rng.randint(0, len(items))
            first, second = dict(items[:cut]), dict(items[cut:])
            if rng.chance(0.4):
                # ... the mapping being a Meta object of its own kind
                try:
                    first = Cls(first)
                except ALLOWED_EXC:
                    pass
            args_given = [first]
            if entry == 'update_map_kw':
                fn = lambda: d.update(first, **second)  # noqa
            else:
                fn = lambda: Cls(first, **second)  # noqa
            desc = (f'{entry}({[k for k in first]}, '
                    f'**{[k for k in second]})')
        elif entry == 'update_meta':
            other = {k: v for k, v in items}
            args_given = [other]
            fn = lambda: d.update(other, **{})  # noqa
            desc = f'update(mapping {[k for k, _ in items]})'
        elif entry in ('update_obj', 'ior_obj', 'ctor_obj'):
            # the argument is itself a Meta object: of the same kind when
            # every key is valid, else of whichever kind accepts the keys
            arg = None
            for C in (Cls, Other):
                try:
                    arg = C(dict(items))
                    break
                except ALLOWED_EXC:
                    continue
            if arg is None:
                arg = dict(items)
            args_given = [arg]
            if entry == 'update_obj':
                fn = lambda: d.update(arg)  # noqa
            elif entry == 'ior_obj':
                def fn():
                    dd = d
                    dd |= arg
            else:
                fn = lambda: Cls(arg)  # noqa
            desc = f'{entry}({type(arg).__name__} {[k for k, _ in items]})'
        elif entry == 'union_assign':
            # a | b of a plain dict and a Meta object (either way round),
            # assigned to the region: whatever class the union has, the
            # region must not end up with a key outside the vocabulary
            valid_items = [it for it in items
                           if not (invalid and it[0] is badk)]
            cut = rng.randint(0, len(valid_items))
            plain = dict(valid_items[:cut])
            try:
                mobj = Cls(dict(valid_items[cut:]))
            except ALLOWED_EXC:
                mobj, plain = Cls(), dict(valid_items)
            if invalid:
                plain[badk] = 1
            side = rng.pick(['ror', 'or'])
            args_given = [plain, mobj]
            robj = S.obj

            def fn():
                u = (plain | mobj) if side == 'ror' else (mobj | plain)
                setattr(robj, which, u)
            desc = (f'= {sorted(map(str, plain))} | {cls}' if side == 'ror'
                    else f'= {cls} | {sorted(map(str, plain))}')
        elif entry == 'update_pairs':
            form = rng.pick(['list', 'tuple', 'iter', 'gen', 'zip',
                             'userdict', 'mappingproxy'])
            arg_ = lambda: _pairs_as(form, items)  # noqa
            fn = lambda: d.update(arg_())  # noqa
            desc = f'update({form} of pairs {[k for k, _ in items]})'
        elif entry == 'update_kw':
            fn = lambda: d.update(**dict(items))  # noqa
            desc = f'update(**{[k for k, _ in items]})'
        elif entry == 'setdefault':
            fn = lambda: d.setdefault(k0, v0)  # noqa
            desc = f'setdefault({k0!r})'
        elif entry == 'ior':
            def fn():
                nonlocal d
                dd = d
                dd |= _pairs_as(iform, items)
                if dd is not d:
                    raise AssertionError('|= rebinds')
            iform = rng.pick(['dict', 'dict', 'list', 'iter', 'gen',
                              'userdict', 'mappingproxy'])
            desc = f'|= {iform} {[k for k, _ in items]}'
        elif entry == 'ctor_map':
            fn = lambda: Cls(dict(items))  # noqa
            desc = f'{cls}({[k for k, _ in items]})'
        elif entry == 'ctor_pairs':
            cform = rng.pick(['list', 'tuple', 'iter', 'gen', 'zip'])
            fn = lambda: Cls(_pairs_as(cform, items))  # noqa
            desc = f'{cls}({cform} of pairs {[k for k, _ in items]})'
        elif entry == 'ctor_kw':
            fn = lambda: Cls(**dict(items))  # noqa
            desc = f'{cls}(**{[k for k, _ in items]})'
        elif entry == 'fromkeys':
            fn = lambda: Cls.fromkeys([k for k, _ in items])  # noqa
            desc = f'{cls}.fromkeys({[k for k, _ in items]})'
        what = f'{cls} {desc}'
        before_d = dict(d) if d is not None else {}
        try:
            args0 = [canon(x) for x in args_given]
        except NameError:
            args_given, args0 = [], []
        value = f'{entry}:' + ('badkey' if invalid else 'valid')
        tgt = None if (d is None or entry.startswith(('ctor', 'fromkeys'))) \
            else a
        out, res = self.c17_outcome(fn, invalid, what, cls, which, value,
                                    target=tgt)
        self.ev(slot=tgt, cls=cls, entry=entry, invalid=invalid, outcome=out,
                keys=[k for k, _ in items])
        # the mappings handed to the call are the caller's: whatever the
        # outcome, they are as they were
        for x, c0 in zip(args_given, args0):
            if x is not d and canon(x) != c0:
                self.violation('A2-collateral', f'{what}: the mapping that '
                               f'was passed in changed: '
                               f'{diff(c0, canon(x))}', cls=cls)
        if entry.startswith(('ctor', 'fromkeys')):
            if out in ('ok', 'wrongly-accepted') and isinstance(res, dict):
                md = MDict(which)
                i = self.add_slot('dict', res, md)
                if out == 'wrongly-accepted':
                    md.tainted = True
                if out == 'ok' and not isinstance(res, Cls):
                    self.violation('A3-readback', f'{what} returned '
                                   f'{type(res).__name__}', cls=cls)
                if out == 'ok' and entry != 'fromkeys':
                    for k, v in items:
                        kk = VISUAL_KEYMAP.get(k, k) if which == 'visual' else k
                        if kk not in res or not same_value(res[k], v):
                            self.violation('A3-readback', f'{what}: key '
                                           f'{k!r} does not read back',
                                           cls=cls)
            return
        if out == 'ok' and entry == 'setdefault':
            # an existing entry is returned and kept, a new one is stored
            kk = VISUAL_KEYMAP.get(k0, k0) if which == 'visual' else k0
            had = kk in before_d
            try:
                now = d[k0]
            except Exception as exc:
                now = exc
            want = before_d[kk] if had else v0
            if not same_value(res, want) or not same_value(now, want):
                self.violation(
                    'A3-readback', f'{what}: setdefault on '
                    f'{"an existing" if had else "a new"} key returned '
                    f'{res!r} and left {now!r}; expected {want!r}', cls=cls)
        if out == 'ok' and entry == 'union_assign':
            d = getattr(S.obj, which)
        if out == 'ok' and entry not in ('setdefault',):
            use = [[k0, v0]] if entry == 'setitem' else items
            for k, v in use:
                try:
                    got = d[k]
                except Exception as exc:
                    self.violation('A3-readback', f'{what}: key {k!r} cannot '
                                   f'be read back: {exc!r}', cls=cls)
                    continue
                if not same_value(got, v):
                    self.violation('A3-readback', f'{what}: key {k!r} reads '
                                   f'back {got!r}, stored {v!r}', cls=cls)
        if out == 'wrongly-accepted' and tgt is not None:
            S = self.slots[tgt]
            if S.kind == 'region':
                S.model.tainted.add(which)
            else:
                S.model.tainted = True

    def op_listop(self, op, rng):
        from regions import Regions
        regs = [s.obj for s in self.slots if s.kind == 'region']
        a = self.pick(op['s'], lambda s: s.kind == 'list')
        invalid = rng.chance(0.55)
        n = rng.randint(0, 3)
        members = [regs[rng.randrange(len(regs))] for _ in range(n)] \
            if regs else []
        bad = rng.pick([None, 'circle', 5, {'t': 'x'}, (1, 2), object,
                        build({'t': 'pix', 'x': 1.0, 'y': 2.0}),
                        Regions(list(regs[:1])), list(regs[:1]),
                        type(regs[0]) if regs else int])
        entry = rng.pick(['ctor', 'append', 'extend', 'insert',
                          'extend_regions'])
        if a is None and entry != 'ctor':
            entry = 'ctor'
        L = self.slots[a].obj if a is not None else None
        if entry in ('append', 'insert') and not invalid and not regs:
            return
        if entry in ('ctor', 'extend'):
            seq = list(members)
            if invalid:
                seq.insert(rng.randint(0, len(seq)), bad)
            arg = seq
            if invalid or rng.chance(0.5):
                # the argument form: list, tuple, iterator, generator, map
                # (valid members must arrive whatever the form)
                form = rng.pick(['list', 'list', 'tuple', 'iter', 'gen',
                                 'map'])
                arg = {'list': lambda: seq, 'tuple': lambda: tuple(seq),
                       'iter': lambda: iter(seq),
                       'gen': lambda: (x for x in seq),
                       'map': lambda: map(lambda x: x, seq)}[form]()
            if entry.startswith('ctor'):
                fn = lambda: Regions(arg)  # noqa
            else:
                fn = lambda: L.extend(arg)  # noqa
        elif entry == 'append':
            item = bad if invalid else regs[rng.randrange(len(regs))]
            fn = lambda: L.append(item)  # noqa
        elif entry == 'insert':
            item = bad if invalid else regs[rng.randrange(len(regs))]
            j = rng.randint(-2, len(L) + 1)
            fn = lambda: L.insert(j, item)  # noqa
        else:
            invalid = False
            other = Regions(list(members))
            fn = lambda: L.extend(other)  # noqa
        value = f'{entry}:' + (f'bad-{type(bad).__name__}' if invalid
                               else 'valid')
        what = f'Regions {entry}'
        tgt = None if entry.startswith('ctor') else a
        try:
            before_members = list(L.regions) if L is not None else []
        except Exception:
            before_members = None
        out, res = self.c17_outcome(fn, invalid, what, 'Regions', 'members',
                                    value, target=tgt)
        if out == 'ok' and tgt is not None and before_members is not None:
            # the accepted members are there, in the documented position
            want = list(before_members)
            if entry in ('extend', 'extend_regions'):
                want += list(members)
            elif entry == 'append':
                want.append(item)
            elif entry == 'insert':
                want.insert(j, item)
            try:
                got = list(L.regions)
                same = len(got) == len(want) and all(
                    x is y for x, y in zip(got, want))
                usable = len(L) == len(want)
            except Exception as exc:
                same, usable, got = False, False, exc
            if not same or not usable:
                self.violation('A3-readback', f'Regions {entry} (valid '
                               f'members): the list holds '
                               f'{len(got) if isinstance(got, list) else got!r}'
                               f' members, {len(want)} expected (or not the '
                               'ones given / not in that order)',
                               cls='Regions')
        self.ev(slot=tgt, cls='Regions', entry=entry, invalid=invalid,
                outcome=out)
        if tgt is not None:
            self.sync_list(tgt)
        if entry.startswith('ctor') and out != 'rejected':
            usable = True
            try:
                len(res), list(res.regions)
            except Exception:
                usable = False
            if usable:
                i = self.add_slot('list', res, MList([]))
                self.sync_list(i)
            if out == 'wrongly-accepted':
                if usable:
                    self.slots[i].model.tainted = True
            else:
                try:
                    ok_ = len(res) == len(members) and all(
                        x is y for x, y in zip(list(res.regions), members))
                    # and it is a working list
                    if members:
                        res.append(members[0])
                        ok_ = ok_ and len(res) == len(members) + 1
                        res.pop()
                except Exception as exc:
                    ok_ = False
                    self.ev(note=f'Regions(valid iterable) unusable: {exc!r}')
                if not ok_:
                    self.violation('A3-readback', 'Regions(<iterable of '
                                   'valid members>) does not hold the members '
                                   'given, or is not a working list',
                                   cls='Regions')
        elif out == 'wrongly-accepted' and tgt is not None:
            self.slots[tgt].model.tainted = True

    def sync_list(self, i):
        """c17: the list model follows the actual membership (only used to
        decide which slots are by-design aliases of each other)."""
        S = self.slots[i]
        items = []
        for x in S.obj.regions:
            for s in self.slots:
                if s.obj is x:
                    items.append(s.model)
                    break
        S.model.items = items

    def op_compound(self, op, rng):
        import regions
        sky = rng.chance(0.5)
        good = [s.obj for s in self.slots if s.kind == 'region'
                and s.model.sky == sky]
        wrong = [s.obj for s in self.slots if s.kind == 'region'
                 and s.model.sky != sky]
        if len(good) < 1:
            o, _ = self.new_simple(rng, rng.pick(sorted(
                gen.SKY_CLASSES if sky else gen.PIXEL_CLASSES)))
            good = [o]
        r1 = good[rng.randrange(len(good))]
        r2 = good[rng.randrange(len(good))]
        opr = getattr(operator, rng.pick(['and_', 'or_', 'xor']))
        invalid = rng.chance(0.6)
        kw = {}
        value = 'valid'
        if invalid:
            c = rng.pick(['operand', 'operand', 'wrongkind', 'operator',
                          'metakey'])
            if c == 'wrongkind' and not wrong:
                c = 'operand'
            if c == 'operand':
                bad = rng.pick([None, 'circle', 5, (1, 2)])
                if rng.chance(0.5):
                    r1 = bad
                else:
                    r2 = bad
            elif c == 'wrongkind':
                if rng.chance(0.5):
                    r1 = wrong[rng.randrange(len(wrong))]
                else:
                    r2 = wrong[rng.randrange(len(wrong))]
            elif c == 'operator':
                opr = rng.pick([None, 'and', 5])
            else:
                wh = rng.pick(['meta', 'visual'])
                kw[wh] = {bad_key(rng, wh): 1}
                if rng.chance(0.3):
                    kw[wh] = _other_kind_meta(rng, wh)
            value = c
        elif rng.chance(0.5):
            kw['meta'] = {k: build(v) for k, v in draw_dict_items(rng, 'meta')}
            kw['visual'] = {k: build(v)
                            for k, v in draw_dict_items(rng, 'visual')}
        cls = 'CompoundSkyRegion' if sky else 'CompoundPixelRegion'
        what = f'{cls}({value})'
        call = lambda: getattr(regions, cls)(r1, r2, opr, **kw)  # noqa
        if not kw and callable(opr) and rng.chance(0.4):
            # the same through the operators and set-like methods
            opn = opr.__name__
            if hasattr(r1, 'union') and rng.chance(0.5):
                meth = {'and_': 'intersection', 'or_': 'union',
                        'xor': 'symmetric_difference'}[opn]
                call = lambda: getattr(r1, meth)(r2)  # noqa
                what = f'region.{meth}({value})'
            else:
                call = lambda: opr(r1, r2)  # noqa
                what = f'region {opn} ({value})'
        out, res = self.c17_outcome(call, invalid, what, cls, 'operands',
                                    value)
        self.ev(cls=cls, invalid=invalid, value=value, outcome=out)
        if out == 'rejected':
            return
        # model: aliases its operands (by design)
        def model_of(o):
            for s in self.slots:
                if s.obj is o:
                    return s.model
            return MRegion(_cname(o))
        m = MRegion(cls, None, None, None, model_of(r1), model_of(r2), 'op')
        if not kw and isinstance(m.r1, MRegion) and out != 'rejected':
            m.meta = _alias_or_copy(res, 'meta', r1, m.r1.meta)
            m.visual = _alias_or_copy(res, 'visual', r1, m.r1.visual)
        if out == 'wrongly-accepted':
            m.tainted.update(['region1', 'region2', 'operator', 'meta',
                              'visual'])
        i = self.add_slot('region', res, m)
        if out == 'ok':
            if not same_value(res.region1, r1) or \
                    not same_value(res.region2, r2) or \
                    res.operator is not opr:
                self.violation('A3-readback', f'{cls} operands/operator do '
                               'not read back', cls=cls)
            for f in ('meta', 'visual'):
                if f in kw and dict(getattr(res, f)) != kw[f]:
                    self.violation('A3-readback', f'{cls}.{f} reads back '
                                   f'{getattr(res, f)!r}, given {kw[f]!r}',
                                   cls=cls, field=f)

    def op_compound_set(self, op, rng):
        """Assignment on an existing compound region."""
        a = self.pick(op['s'], lambda s: s.kind == 'region'
                      and s.model.compound)
        if a is None:
            return
        S = self.slots[a]
        obj, cls = S.obj, S.model.cls
        invalid = rng.chance(0.65)
        f = rng.pick(['region1', 'region2', 'meta', 'visual'])
        sky = S.model.sky
        if invalid and rng.chance(0.2):
            # the operator: whether it can be assigned at all is the
            # library's choice (today it cannot), but nothing that is not
            # callable may ever be stored
            name, v = rng.pick([('none', None), ('int', 5), ('str', 'and'),
                                ('list', [1])])
            value = 'operator:' + name
            what = f'{cls}.operator = {name}'
            out, _ = self.c17_outcome(lambda: setattr(obj, 'operator', v),
                                      True, what, cls, 'operator', value,
                                      target=a, delete=True)
            self.ev(slot=a, cls=cls, field='operator', value=value,
                    invalid=True, outcome=out)
            if out == 'wrongly-accepted':
                S.model.tainted.add('operator')
            return
        if f in ('region1', 'region2'):
            if invalid:
                c = rng.pick(['none', 'str', 'wrongkind'])
                if c == 'wrongkind':
                    v, _ = self.new_simple(rng, rng.pick(sorted(
                        gen.PIXEL_CLASSES if sky else gen.SKY_CLASSES)))
                else:
                    v = None if c == 'none' else 'circle'
                value = c
            else:
                v, _ = self.new_simple(rng, rng.pick(sorted(
                    gen.SKY_CLASSES if sky else gen.PIXEL_CLASSES)))
                value = 'valid'
        else:
            if invalid:
                c = 'badkey'
                v = {bad_key(rng, f): 1}
                value = 'dict:' + c
            else:
                v = {k: build(x) for k, x in draw_dict_items(rng, f)}
                value = 'dict:valid'
        what = f'{cls}.{f} = {value}'
        out, _ = self.c17_outcome(lambda: setattr(obj, f, v), invalid, what,
                                  cls, f, value, target=a)
        self.ev(slot=a, cls=cls, field=f, value=value, invalid=invalid,
                outcome=out)
        if out == 'wrongly-accepted':
            S.model.tainted.add(f)
        elif out == 'ok':
            got = getattr(obj, f)
            if (f in ('meta', 'visual') and dict(got) != v) or \
                    (f not in ('meta', 'visual') and not same_value(got, v)):
                self.violation('A3-readback', f'{cls}.{f} does not read '
                               'back', cls=cls, field=f)

    def op_boxmask(self, op, rng):
        from regions import RegionBoundingBox, RegionMask
        invalid = rng.chance(0.6)
        if rng.chance(0.6):
            b = sorted(rng.randint(-5, 20) for _ in range(2))
            c = sorted(rng.randint(-5, 20) for _ in range(2))
            args = [b[0], b[1], c[0], c[1]]
            value = 'valid'
            if invalid:
                k = rng.pick(['float', 'inverted', 'inverted_unsigned',
                              'str', 'none', 'nan', 'float_integral', 'arr0d_int', 'arr0d_int32',
                              'arr0d_float', 'arr1d', 'list', 'index_obj',
                              'inf', 'complex', 'fraction', 'bytes'])
                j = rng.randrange(4)
                other = {
                    'float_integral': lambda: float(args[j]),
                    'arr0d_int': lambda: np.array(args[j]),
                    'arr0d_int32': lambda: np.array(args[j], dtype=np.int32),
                    'arr0d_float': lambda: np.array(float(args[j])),
                    'arr1d': lambda: np.array([args[j]]),
                    'list': lambda: [args[j]],
                    'index_obj': lambda: _IndexLike(args[j]),
                    'inf': lambda: float('inf'),
                    'complex': lambda: complex(args[j], 0),
                    'fraction': lambda: __import__('fractions').Fraction(
                        args[j], 1),
                    'bytes': lambda: b'3'}
                if k in other:
                    args[j] = other[k]()
                    k_done = True
                else:
                    k_done = False
                if k_done:
                    pass
                elif k == 'float':
                    args[j] = args[j] + 0.5
                elif k == 'inverted':
                    pair = rng.pick([0, 2])
                    args[pair], args[pair + 1] = args[pair + 1] + 1, args[pair]
                elif k == 'inverted_unsigned':
                    # limits taken from an unsigned index array: their
                    # difference wraps around instead of going negative
                    ut = rng.pick([np.uint8, np.uint16, np.uint32, np.uint64])
                    args = [ut(abs(x)) for x in args]
                    pair = rng.pick([0, 2])
                    lo, hi = sorted(int(x) for x in args[pair:pair + 2])
                    args[pair], args[pair + 1] = ut(hi + 1), ut(lo)
                elif k == 'str':
                    args[j] = '3'
                elif k == 'none':
                    args[j] = None
                else:
                    args[j] = float('nan')
                value = k
            elif rng.chance(0.3):
                args = [np.int64(x) for x in args]
            elif rng.chance(0.2):
                ut = rng.pick([np.uint8, np.uint16, np.uint64])
                args = [ut(v) for v in sorted(abs(x) for x in args[:2])] + \
                    [ut(v) for v in sorted(abs(x) for x in args[2:])]
                value = 'valid-unsigned'
            what = f'RegionBoundingBox({value})'
            out, res = self.c17_outcome(lambda: RegionBoundingBox(*args),
                                        invalid, what, 'RegionBoundingBox',
                                        'bounds', value)
            if out == 'ok':
                if [res.ixmin, res.ixmax, res.iymin, res.iymax] != args:
                    self.violation('A3-readback', 'bounding box bounds do '
                                   'not read back', cls='RegionBoundingBox')
        else:
            ny, nx = rng.randint(1, 6), rng.randint(1, 6)
            bbox = RegionBoundingBox(2, 2 + nx, 3, 3 + ny)
            shape = (ny, nx)
            value = 'valid'
            if invalid:
                k = rng.pick(['shape', 'transposed', 'flat', 'scalar'])
                if k == 'shape':
                    shape = (ny + 1, nx)
                elif k == 'transposed':
                    shape = (nx, ny + (1 if nx == ny else 0))
                elif k == 'flat':
                    shape = (ny * nx + 1,)
                else:
                    shape = ()
                value = k
            data = np.ones(shape)
            what = f'RegionMask({value})'
            out, res = self.c17_outcome(lambda: RegionMask(data, bbox),
                                        invalid, what, 'RegionMask', 'data',
                                        value)
            if out == 'ok' and (not same_value(res.bbox, bbox) or
                                not np.array_equal(res.data, data)):
                self.violation('A3-readback', 'mask data/bbox do not read '
                               'back', cls='RegionMask')
        self.ev(cls=what, invalid=invalid, outcome=out)

    def op_readback(self, op, rng):
        a = self.pick(op['s'], lambda s: s.kind == 'region')
        if a is None:
            return
        obj = self.slots[a].obj
        before = canon(obj)
        try:
            for f in list(getattr(obj, '_params', ())) + ['meta', 'visual']:
                getattr(obj, f)
            repr(obj), str(obj), obj == obj
        except Exception as exc:
            self.violation('A3-readback', f'slot {a} ({_cname(obj)}) cannot '
                           f'be read: {exc!r}', cls=_cname(obj))
        after = canon(obj)
        if after != before:
            self.violation('A3-readback', f'slot {a} ({_cname(obj)}) changed '
                           f'by being read: {diff(before, after)}',
                           cls=_cname(obj))
        self.ev(slot=a)

    # --------------------------------------- systematic cell of the batch
    def op_cell(self, op, rng):
        """Run ``index`` of a batch visits cell ``index mod #cells`` of
        class x parameter x entry point {constructor, assignment,
        copy(**changes)} (the quick tier visits every cell about fifteen
        times); the invalid value is drawn from the parameter kind's
        catalogue with the run's seed."""
        cells = c17_cells()
        k = op['cell']
        cls, f, kind, entry = cells[k % len(cells)]
        vals = invalid_values(kind)
        value, rec = rng.pick(vals)
        obj, m = self.new_simple(rng, cls)
        a = self.add_slot('region', obj, m)
        m.stored = {}
        bad = build_invalid(rec)
        value = f'{kind}:{value}'
        if entry == 'ctor':
            kw = {g: mk_value(kd, m.tok[g]) for g, kd in m.fields()}
            kw[f] = bad
            import regions
            what = f'{cls}({f}={value})'
            fn = lambda: getattr(regions, cls)(**kw)  # noqa
            tgt = None
        elif entry == 'setattr':
            what = f'{cls}.{f} = {value}'
            fn = lambda: setattr(obj, f, bad)  # noqa
            tgt = a
        else:
            what = f'{cls}.copy({f}={value})'
            fn = lambda: obj.copy(**{f: bad})  # noqa
            tgt = None
        out, res = self.c17_outcome(fn, True, what, cls, f, value, target=tgt)
        self.ev(slot=a, cls=cls, field=f, value=value, invalid=True,
                entry=entry, outcome=out)
        if out == 'wrongly-accepted':
            if entry == 'setattr':
                m.tainted.add(f)
            else:
                n = mcopy(m)
                n.tainted.add(f)
                self.add_slot('region', res, n)

    def _copyset_compound(self, a, rng):
        S = self.slots[a]
        obj, cls = S.obj, S.model.cls
        wrong = [s.obj for s in self.slots if s.kind == 'region'
                 and s.model.sky != S.model.sky and not s.model.compound]
        f = rng.pick(['region1', 'region2', 'operator', 'meta', 'visual'])
        if f in ('region1', 'region2'):
            name, v = rng.pick([('none', None), ('int', 5), ('str', 'circle'),
                                ('class', type(obj))] +
                               ([('wrongkind', wrong[0])] if wrong else []))
        elif f == 'operator':
            name, v = rng.pick([('none', None), ('str', 'and'), ('int', 5)])
        else:
            name, v = 'badkey', {bad_key(rng, f): 1}
            if rng.chance(0.3):
                name, rec = rng.pick(NON_MAPPINGS)
                v = build_invalid(rec)
                name = 'not-a-mapping:' + name
            elif rng.chance(0.3):
                name, v = 'otherkind', _other_kind_meta(rng, f)
        value = f'compound:{f}:{name}'
        what = f'{cls}.copy({f}={name})'
        out, res = self.c17_outcome(lambda: obj.copy(**{f: v}), True, what,
                                    cls, f, value)
        self.ev(slot=a, cls=cls, field=f, value=value, invalid=True,
                outcome=out)
        if out == 'wrongly-accepted':
            n = mcopy(S.model)
            n.tainted.update(['region1', 'region2', 'operator', 'meta',
                              'visual'])
            self.add_slot('region', res, n)

    # ------------------------------------------------- copy with changes
    def op_copyset(self, op, rng):
        """``region.copy(field=value)``: the same domain as assignment."""
        if rng.chance(0.15):
            c = self.pick(op['s'], lambda s: s.kind == 'region'
                          and s.model.compound and not s.model.tainted
                          and not self._sub_tainted(s.model))
            if c is not None:
                return self._copyset_compound(c, rng)
        a = self.pick(op['s'], lambda s: s.kind == 'region'
                      and not s.model.compound)
        if a is None:
            return
        S = self.slots[a]
        m, obj, cls = S.model, S.obj, S.model.cls
        if m.tainted:
            return
        fields = m.fields()
        invalid = rng.chance(0.65)
        c = rng.weighted([('field', 6), ('order', 3 if cls in
                                         gen.ANNULUS_PAIRS else 0),
                          ('dict', 2)])
        if not invalid and c == 'order':
            c = 'field'
        if c == 'field':
            cands = [(f, k) for f, k in fields
                     if (invalid_values(k) if invalid else
                         all(f not in p for p in
                             gen.ANNULUS_PAIRS.get(cls, [])))]
            if not cands:
                return
            f, kind = rng.pick(cands)
            if invalid:
                value, rec = rng.pick(invalid_values(kind))
                v = build_invalid(rec)
                value = f'{kind}:{value}'
            else:
                v = valid_variant(rng, kind,
                                  rng.randrange(gen.KIND_SIZES[kind]))
                value = f'{kind}:valid'
        elif c == 'order':
            inner, outer = rng.pick(gen.ANNULUS_PAIRS[cls])
            kind = dict(fields)[inner]
            try:
                if rng.chance(0.5):
                    f, ref = inner, getattr(obj, outer)
                    cand = [t for t in range(gen.KIND_SIZES[kind])
                            if not (mk_value(kind, t) < ref)
                            and not (ref > mk_value(kind, t))]
                else:
                    f, ref = outer, getattr(obj, inner)
                    cand = [t for t in range(gen.KIND_SIZES[kind])
                            if not (mk_value(kind, t) > ref)
                            and not (ref < mk_value(kind, t))]
            except Exception:
                return
            if not cand:
                return
            v = mk_value(kind, rng.pick(cand))
            value = 'order:violating-through-copy'
        else:
            f = rng.pick(['meta', 'visual'])
            d = {k: build(x) for k, x in draw_dict_items(rng, f)}
            if invalid and rng.chance(0.3):
                name, rec = rng.pick(NON_MAPPINGS)
                d = build_invalid(rec)
                value = f'dict:not-a-mapping:{name}'
            elif invalid and rng.chance(0.3):
                d = _other_kind_meta(rng, f)
                value = 'dict:otherkind'
            elif invalid:
                d[bad_key(rng, f)] = 1
                value = 'dict:badkey'
            else:
                value = 'dict:valid'
            v = d
        what = f'{cls}.copy({f}={value})'
        out, res = self.c17_outcome(lambda: obj.copy(**{f: v}), invalid,
                                    what, cls, f, value)
        self.ev(slot=a, cls=cls, field=f, value=value, invalid=invalid,
                outcome=out)
        if out == 'rejected':
            return
        n = mcopy(m)
        if out == 'wrongly-accepted':
            n.tainted.add(f)
            if c == 'order':
                n.tainted.update((inner, outer, inner + '/' + outer))
        i = self.add_slot('region', res, n)
        if out == 'ok':
            if f in ('meta', 'visual'):
                if dict(getattr(res, f)) != dict(v):
                    self.violation('A3-readback', f'{what}: reads back '
                                   f'{getattr(res, f)!r}', cls=cls, field=f)
            else:
                self.readback(i, cls, {f: v})

    def standing_invariant(self):
        for i, s in enumerate(self.slots):
            if s.kind == 'dict':
                if getattr(s.model, 'tainted', False):
                    continue
                valid = META_VALID if s.model.kind == 'meta' else VISUAL_VALID
                bad = [k for k in s.obj if k not in valid]
                if bad:
                    self.violation('A4-invariant', f'slot {i}: '
                                   f'{type(s.obj).__name__} holds keys '
                                   f'outside the vocabulary: {bad}',
                                   cls=type(s.obj).__name__)
                    s.model.tainted = True
                continue
            if s.kind == 'list' and getattr(s.model, 'tainted', False):
                continue
            for f, p in domain_problems(s.obj):
                tainted = s.model.tainted
                if isinstance(tainted, bool):
                    if not tainted:
                        self.violation('A4-invariant', f'slot {i} '
                                       f'({_cname(s.obj)}) is outside its '
                                       f'domain: {p}', cls=_cname(s.obj),
                                       field=f)
                        s.model.tainted = True
                    break
                if any(part in tainted for part in f.split('/')) or \
                        (isinstance(s.model, MRegion) and s.model.compound
                         and self._sub_tainted(s.model)):
                    continue
                self.violation('A4-invariant', f'slot {i} '
                               f'({_cname(s.obj)}) is outside its domain: '
                               f'{p}', cls=_cname(s.obj), field=f)
                if isinstance(tainted, set):
                    tainted.add(f)

    def _sub_tainted(self, m):
        if m.tainted:
            return True
        if m.compound:
            return any(isinstance(x, MRegion) and self._sub_tainted(x)
                       for x in (m.r1, m.r2))
        return False


def _shared_ids(o, acc, depth=0):
    """ids of the MUTABLE value objects reachable from a region: the region,
    its PixCoord / SkyCoord / Quantity / array parameters (and the arrays
    inside them), its meta and visual dicts and the lists, dicts and arrays
    in those.  Immutable things (numbers, strings, tuples of them, functions,
    units) are not counted."""
    from astropy.coordinates import SkyCoord
    from regions import PixCoord, Region
    if depth > 6 or id(o) in acc:
        return acc
    if isinstance(o, Region):
        acc[id(o)] = o
        for k in list(getattr(o, '_params', ()) or ()) + ['meta', 'visual']:
            try:
                _shared_ids(getattr(o, k), acc, depth + 1)
            except Exception:
                pass
    elif isinstance(o, (dict, list)):
        acc[id(o)] = o
        for v in (o.values() if isinstance(o, dict) else o):
            _shared_ids(v, acc, depth + 1)
    elif isinstance(o, tuple):
        for v in o:
            _shared_ids(v, acc, depth + 1)
    elif isinstance(o, PixCoord):
        acc[id(o)] = o
        for v in (o.x, o.y):
            if isinstance(v, np.ndarray):
                acc[id(v)] = v
    elif isinstance(o, (SkyCoord, np.ndarray)):
        acc[id(o)] = o
    return acc


def _objs_by_id(o, ids, out=None, depth=0):
    from regions import PixCoord, Region
    out = [] if out is None else out
    if depth > 6:
        return out
    if id(o) in ids:
        out.append(o)
    if isinstance(o, Region):
        for k in list(getattr(o, '_params', ()) or ()) + ['meta', 'visual']:
            _objs_by_id(getattr(o, k, None), ids, out, depth + 1)
    elif isinstance(o, dict):
        for v in o.values():
            _objs_by_id(v, ids, out, depth + 1)
    elif isinstance(o, (list, tuple)):
        for v in o:
            _objs_by_id(v, ids, out, depth + 1)
    elif isinstance(o, PixCoord):
        for v in (o.x, o.y):
            if id(v) in ids:
                out.append(v)
    return out


def _mutable_ids(o, acc, depth=0):
    """ids of the mutable objects reachable from a region (value graph)."""
    from regions import Region
    if depth > 8 or id(o) in acc:
        return acc
    if isinstance(o, Region):
        acc.add(id(o))
        for v in o.__dict__.values():
            _mutable_ids(v, acc, depth + 1)
    elif isinstance(o, (dict, list)):
        acc.add(id(o))
        for v in (o.values() if isinstance(o, dict) else o):
            _mutable_ids(v, acc, depth + 1)
    elif isinstance(o, (str, bytes, int, float, bool, type(None), tuple)):
        pass
    else:
        acc.add(id(o))          # PixCoord, arrays, Quantity, SkyCoord, ...
        for v in getattr(o, '__dict__', {}).values():
            if isinstance(v, (np.ndarray,)):
                acc.add(id(v))
    return acc


def internal_alias(obj):
    """True if the two operands of a compound share mutable state (e.g.
    ``a | a``, or a deepcopy of it, which preserves the sharing while
    ``copy()`` does not): the effect of editing one operand on the other is
    then not something the properties specify."""
    try:
        a = _mutable_ids(obj.region1, set())
        b = _mutable_ids(obj.region2, set())
    except Exception:
        return True
    return bool(a & b)


def _mark_unknown_up(slots, m):
    """A compound whose shared meta was edited in place has an ambiguous
    internal alias structure: exclude it (and compounds built on it) from
    equality *prediction* (V1 keeps running)."""
    for s in slots:
        if isinstance(s.model, MRegion) and s.model.compound and \
                id(m) in reach(s.model):
            s.model.eq_unknown = True


def _cname(o):
    return type(o).__name__


def same_value(got, v):
    """"Readable back unchanged": the same object, or an equal value."""
    if got is v:
        return True
    try:
        if canon(got) == canon(v):
            return True
    except Exception:
        pass
    try:
        return bool(np.all(got == v))
    except Exception:
        return False


# ------------------------------------------------------ plan generation
C16_OPS = [('new', 5), ('copy', 5), ('copy_changes', 4), ('mutate', 9),
           ('combine', 1.5), ('newlist', 1.5), ('listderive', 2.5),
           ('listedit', 3), ('compare', 2), ('classvariant', 1.5)]
C17_OPS = [('construct', 6), ('setattr', 8), ('delattr', 1.5),
           ('dictop', 6), ('listop', 3), ('compound', 2),
           ('compound_set', 1.5), ('boxmask', 1.5), ('readback', 0.5),
           ('copyset', 2.5)]


_C17_CELLS = []
_C16_CELLS = []


def c16_cells():
    if not _C16_CELLS:
        for cls in sorted(gen.ALL_CLASSES):
            for f, kind in list(gen.ALL_CLASSES[cls]) + [('meta', 'dict'),
                                                         ('visual', 'dict')]:
                hows = ['copy', 'assign']
                if kind in ('asize', 'angle'):
                    hows.append('unit')
                if kind in ('pixpos', 'pixverts'):
                    hows += ['tol_in', 'tol_out', 'special']
                if kind in ('skypos', 'skyverts'):
                    hows.append('special')
                if f == 'angle':
                    hows.append('default_twice')
                for how in hows:
                    _C16_CELLS.append((cls, f, kind, how))
    return _C16_CELLS


def c17_cells():
    if not _C17_CELLS:
        for cls in sorted(gen.ALL_CLASSES):
            for f, kind in gen.ALL_CLASSES[cls]:
                if invalid_values(kind):
                    for entry in ('ctor', 'setattr', 'copy'):
                        _C17_CELLS.append((cls, f, kind, entry))
    return _C17_CELLS


def gen_plan(seed, index, tier='quick', mode='c16'):
    cfg = Stream(seed, 'config')
    ops = Stream(seed, 'ops')
    table = C16_OPS if mode == 'c16' else C17_OPS
    # swarm: a random subset of op kinds is disabled per run
    enabled = [(k, w) for k, w in table if cfg.chance(0.85)]
    first = 'new' if mode == 'c16' else 'construct'
    if not any(k == first for k, _ in enabled):
        enabled.append((first, 5))
    nmax = 30 if mode == 'c16' else 20
    n = cfg.randint(3, nmax)
    plan_ops = [{'op': first, 's': 0, 'r': ops.getrandbits(48)}]
    if mode == 'c17':
        # the batch enumerates class x parameter x entry point (see op_cell)
        plan_ops.insert(cfg.randint(0, 1), {
            'op': 'cell', 's': 0, 'cell': index, 'r': ops.getrandbits(48)})
    else:
        # ... and class x field x way of differing (see op_cell16)
        plan_ops.insert(cfg.randint(0, 1), {
            'op': 'cell16', 's': 0, 'cell': index, 'r': ops.getrandbits(48)})
    while len(plan_ops) < n:
        k = ops.weighted(enabled)
        plan_ops.append({'op': k, 's': ops.randrange(64),
                         's2': ops.randrange(64), 'r': ops.getrandbits(48)})
    # ambient configuration: unit equivalencies the application may have
    # enabled globally in astropy (they must not widen what is accepted)
    equiv = 'none'
    if mode == 'c17':
        equiv = cfg.weighted([('none', 5), ('dimensionless_angles', 1),
                              ('pixel_scale', 1), ('parallax', 1)])
    return {'engine': ENGINE, 'mode': mode, 'seed': seed, 'index': index,
            'cfg': {'equiv': equiv}, 'ops': plan_ops}


def execute(plan, ctx):
    return Machine(plan, ctx).run()


# ------------------------------------------------------ driver interface
COMPONENTS = {
    'real': ['regions (working tree): every region class, RegionMeta/'
             'RegionVisual, Regions, RegionBoundingBox, RegionMask', 'numpy',
             'astropy units/coordinates'],
    'modelled_at_seam': [],
    'stub': ['reference model (token vector per object, alias graph, list '
             'membership) - the oracle, not part of the system'],
}


def rule(mode='c16'):
    if mode == 'c16':
        return ('seeded histories of 3-30 operations (new / copy / copy with '
                'changes / deepcopy / mutation of one slot by assignment, '
                'dict edit, in-place edit of coordinates, arrays, Quantities '
                'and nested lists / compound building / Regions slicing, '
                'copying and list edits / comparisons) over <= ~14 live '
                'slots. A state is (op kind, class, detail such as the field '
                'or the changed-field set); all are non-trivial except plain '
                '"new". distinct_nontrivial counts distinct such tuples '
                'reached.')
    return ('seeded histories of 3-20 operations interleaving valid and '
            'invalid constructions, assignments, deletions, dict mutators and '
            'list mutators on shared objects. A state is (op kind, class, '
            'field, value kind, outcome, exception class); non-trivial = it '
            'involves an invalid value or a rejection. distinct_nontrivial '
            'counts distinct such tuples reached.')


RULE = rule()
ASSUMPTIONS = [
    'menu values are well separated, so model tokens are equal exactly when '
    'the intended values are equal; unit re-expressions are only used when '
    'astropy itself reports equality in both directions',
    'constructors alias what they are handed (by design); the harness builds '
    'every object from fresh arrays/lists/dicts',
    'NaN/inf rotation angles and any text value are inside the domain (the '
    'property lists non-finite values for sizes only)',
]


def preload():
    import regions  # noqa
    import astropy.coordinates  # noqa
    from astropy.coordinates import SkyCoord
    import astropy.units as u
    # touch the transformation machinery once so that every fork starts warm
    SkyCoord(1 * u.deg, 2 * u.deg, frame='fk5').transform_to('galactic')


def tiers(mode='c16'):
    return {'quick': {'runs': 3000, 'selftest': 32, 'limit': 120,
                      'chunk': 25},
            'thorough': {'runs': 150000, 'selftest': 256, 'limit': 120,
                         'chunk': 100, 'min_budget': 300}}


def abstract_states(res):
    return set(tuple(s) for s in res['states'])


def nontrivial(state_repr):
    import re
    return not state_repr.startswith("('new',") and \
        not re.search(r"valid[^']*', 'accepted'", state_repr)


def signature(v):
    import re
    d = re.sub(r'slot \d+', 'slot N', v['detail'])
    d = re.sub(r'[-+]?\d+\.?\d*(e[-+]?\d+)?', '#', d)
    key = d.split(':')[0][:60]
    prop = 'C16' if v['oracle'].startswith('V') else 'C17'
    return (prop, v['oracle'], v.get('cls', ''), v.get('field', ''),
            v.get('value', ''))


def describe(plan, res):
    lines = [f'val run mode={plan["mode"]} seed={plan["seed"]} cfg={plan.get("cfg")} '
             f'({len(plan["ops"])} ops)']
    for e in res['events']:
        if e.get('skip'):
            continue
        d = {k: v for k, v in e.items() if k not in ('step',)}
        lines.append(f'  step {e["step"]}: {d}')
    return lines[:80]


def shrink(plan):
    ops = plan['ops']
    n = len(ops)
    # chunks first, then single ops (the first op is kept: it seeds a slot)
    size = n // 2
    while size >= 1:
        for lo in range(1, n, size):
            p = copy.deepcopy(plan)
            del p['ops'][lo:lo + size]
            if len(p['ops']) < n:
                yield p
        size //= 2
    p = copy.deepcopy(plan)
    if n > 1:
        del p['ops'][0]
        yield p
