"""fsx - file-system crash/fault simulator for property C14.

A run is a seeded sequence of 1-4 ``write`` steps against a private disk.
Every step: prepare the destination state, snapshot the disk, call
``Region.write`` / ``Regions.write`` under the run's ambient configuration
(warnings mode, modelled locale encoding, path style) with a fault placed
*inside* the call (failing element at a seeded list position, bad option,
escalated warning, unencodable text), snapshot again, and evaluate

  W1 refusal   W2 failure atomicity   W3 success + read-back battery
  W4 reference model of the disk (nothing changes between steps / by reads)

The oracles are outcome-agnostic: the property does not say *which* lists
must fail, only what must be true of the disk when one does.
"""
import gc
import gzip
import hashlib
import os
import re
import shutil
import stat

from sim import gen
from sim.fingerprint import canon, diff, fpc
from sim.recipes import build
from sim.rng import Stream
from sim.seams import FsSeam, warnings_mode

ENGINE = 'fsx'
PROPERTY = 'C14'
# DS9 serialisation orders the hoisted ``global`` keys by set iteration (R3 /
# observation O1), so DS9 *texts* - and with them byte offsets quoted in
# exception messages - differ between interpreters with different
# PYTHONHASHSEED.  Under another hash seed the self-test therefore compares
# the schedule digest (everything except message texts).
HASHSEED_SENSITIVE = True

FORMATS = ['ds9', 'crtf', 'fits']
# written down from the format conventions, NOT read from the code under test
WRITE_EXT = {'ds9': ['.reg', '.ds9'], 'crtf': ['.crtf'],
             'fits': ['.fits', '.fit', '.fts']}
READ_GZ_EXT = {'ds9': ['.reg.gz', '.ds9.gz'], 'crtf': ['.crtf.gz'],
               'fits': ['.fits.gz', '.fit.gz', '.fts.gz']}
ALL_EXT = {e: f for f, es in WRITE_EXT.items() for e in es}

DEST_STATES = ['absent', 'missing_dir', 'file_empty', 'file_junk',
               'symlink_file', 'symlink_dangling', 'symlink_dir', 'directory',
               'reuse', 'badname', 'symlink_chain', 'symlink_abs',
               'symlink_updir', 'symlink_loop', 'linked_parent', 'hardlink',
               'dotdot_link']
FAULTS = ['none', 'elem', 'bad_option', 'warn_elem', 'unencodable',
          'nonascii_ok']

FORMAT_CLASSES = {
    'ds9': sorted(gen.ALL_CLASSES),
    'crtf': [c for c in sorted(gen.SKY_CLASSES)
             if c not in ('EllipseAnnulusSkyRegion',
                          'RectangleAnnulusSkyRegion')],
    'fits': list(gen.FITS_CLASSES),
}
UNSUPPORTED_FRAMES = ['supergalactic', 'fk4noeterms',
                      'geocentrictrueecliptic']


def cells():
    out = []
    for f in FORMATS:
        for d in DEST_STATES:
            for o in (False, True):
                for k in FAULTS:
                    out.append((f, d, o, k))
    return out


CELLS = cells()


# ------------------------------------------------------------ generation
def _ok_region(rng, fmt):
    exclude = ('component',) if fmt == 'fits' else ()
    if fmt == 'crtf' and rng.chance(0.25):
        # pixel regions are expressible with coordsys='image'; the step's
        # kwargs decide whether that is what happens
        return gen.simple_region(rng, sorted(gen.PIXEL_CLASSES),
                                 meta_exclude=exclude)
    return gen.simple_region(rng, FORMAT_CLASSES[fmt], meta_exclude=exclude)


def _failing_region(rng, fmt, warn=False):
    """A region that the format cannot express (or only with a warning)."""
    kinds = {
        'ds9': ['compound_pix', 'compound_sky', 'frame', 'malformed'],
        'crtf': ['compound_sky', 'compound_pix', 'annulus', 'pixel_default',
                 'malformed'],
        'fits': ['sky', 'unsupported_cls', 'compound_pix', 'component',
                 'malformed'],
    }[fmt]
    kind = rng.pick(kinds)
    if kind == 'malformed':
        # whitelisted keys holding values of the wrong shape, and regions
        # whose public data were changed after construction: the serialiser
        # fails with TypeError / IndexError / AttributeError / ValueError
        r = _ok_region(rng, fmt)
        simple = r.get('t') == 'region' and 'center' in r['params']
        how = rng.pick({
            'ds9': ['tag_int', 'linestyle_short', 'fill_str', 'center_x_str',
                    'poke_size'],
            'crtf': ['range_int', 'poke_size', 'poke_center',
                     'center_x_none'],
            'fits': ['center_x_str', 'poke_center', 'poke_size']}[fmt])
        if how == 'tag_int':
            r['meta'] = {'t': 'meta', 'v': [['tag', 5]]}
        elif how == 'linestyle_short':
            r['visual'] = {'t': 'visual', 'v': [
                ['linestyle', {'t': 'tuple', 'v': [0, {'t': 'tuple',
                                                       'v': [3]}]}]]}
        elif how == 'fill_str':
            r['visual'] = {'t': 'visual', 'v': [['fill', 'x']]}
        elif how == 'range_int':
            r['meta'] = {'t': 'meta', 'v': [['range', 5]]}
        elif not simple:
            r['meta'] = {'t': 'meta', 'v': [['tag', 5], ['range', 5]]}
        elif how.startswith('center_x') and                 not r['cls'].endswith('PixelRegion'):
            r['poke'] = [['center', None]]
        elif how == 'center_x_str':
            r['setpub'] = [['center', 'x', 'a']]
        elif how == 'center_x_none':
            r['setpub'] = [['center', 'x', None]]
        elif how == 'poke_center':
            r['poke'] = [['center', None]]
        elif how == 'poke_size':
            size = [k for k in r['params'] if k not in ('center', 'angle',
                                                        'text')]
            if size:
                r['poke'] = [[rng.pick(sorted(size)), 'x']]
            else:
                r['poke'] = [['center', None]]
        return 'malformed:' + how, r
    if kind == 'compound_pix':
        return kind, gen.compound_region(rng, sky=False, depth=0)
    if kind == 'compound_sky':
        return kind, gen.compound_region(rng, sky=True, depth=0)
    if kind == 'frame':
        r = gen.simple_region(rng, ['CircleSkyRegion', 'PointSkyRegion',
                                    'EllipseSkyRegion', 'LineSkyRegion',
                                    'PolygonSkyRegion'])
        fr = rng.pick(UNSUPPORTED_FRAMES)
        for v in r['params'].values():
            if isinstance(v, dict) and v.get('t') == 'sky':
                v['frame'] = fr
        return kind, r
    if kind == 'annulus':
        return kind, gen.simple_region(rng, ['EllipseAnnulusSkyRegion',
                                             'RectangleAnnulusSkyRegion'])
    if kind == 'pixel_default':
        return kind, gen.simple_region(rng, ['CirclePixelRegion',
                                             'EllipsePixelRegion',
                                             'PolygonPixelRegion'])
    if kind == 'sky':
        return kind, gen.simple_region(rng, sorted(gen.SKY_CLASSES))
    if kind == 'unsupported_cls':
        return kind, gen.simple_region(rng, ['LinePixelRegion',
                                             'TextPixelRegion',
                                             'RectangleAnnulusPixelRegion'])
    if kind == 'component':
        r = gen.simple_region(rng, FORMAT_CLASSES['fits'], with_meta=0.0)
        r['meta'] = {'t': 'meta', 'v': [['component', rng.pick([1, 2, 7])]]}
        return kind, r
    raise AssertionError(kind)


def _unencodable_region(rng, fmt, encoding, encodable=False):
    ch = {'utf-8': '\ud800', 'ascii': '\xe9', 'latin-1': 'λ'}[encoding]
    if encodable:
        ch = '\xe9'          # fine under utf-8 (the only case it is used in)
    text = 'bad' + ch + 'text'
    if fmt == 'ds9' and rng.chance(0.5):
        cls = rng.pick(['TextPixelRegion', 'TextSkyRegion'])
        toks = gen.draw_tokens(rng, cls)
        r = gen.region_from_tokens(cls, toks)
        r['params']['text'] = text
        return r
    r = _ok_region(rng, fmt)
    key = 'text' if fmt == 'ds9' else 'label'
    r['meta'] = {'t': 'meta', 'v': [[key, text]]}
    return r


def _good_kwargs(rng, fmt, regions):
    kw = {}
    if fmt == 'ds9':
        if rng.chance(0.5):
            kw['precision'] = rng.randint(1, 12)
    elif fmt == 'crtf':
        if any(r.get('cls', '').endswith('PixelRegion') for r in regions) \
                and rng.chance(0.7):
            kw['coordsys'] = 'image'
        elif rng.chance(0.4):
            kw['coordsys'] = rng.pick(['fk5', 'icrs', 'galactic', 'fk4'])
        if rng.chance(0.3):
            kw['fmt'] = rng.pick(['.4f', '.8f', '.3f'])
        if rng.chance(0.3):
            kw['radunit'] = rng.pick(['deg', 'arcsec', 'arcmin'])
    elif fmt == 'fits':
        if rng.chance(0.35):
            how = rng.weighted([('region', 4), ('other', 2), ('none', 3),
                                ('lower', 1), ('scaling', 2)])
            cards = [['OBSERVER', 'verif'], ['NUMBER', 7]]
            if how == 'region':
                cards.insert(0, ['EXTNAME', 'REGION'])
            elif how == 'other':
                cards.insert(0, ['EXTNAME', 'MYEXT'])
            elif how == 'lower':
                cards = [['extname', 'REGION'], ['observer', 'verif']]
            elif how == 'scaling':
                # a header copied from another tool's table: column keywords
                # that are not this table's (they must not re-scale its data)
                cards = [['EXTNAME', 'REGION'], ['TSCAL2', 2.0],
                         ['TZERO2', 1.0], ['TNULL1', 0], ['TDISP2', 'F8.3'],
                         ['TUNIT3', 'm'], ['OBSERVER', 'verif']]
            # ('none': the header does not name the extension at all)
            kw['header'] = {'t': 'dict', 'v': cards}
    return kw


def _bad_kwargs(rng, fmt):
    menu = {
        'ds9': [{'precision': 'x'}, {'precision': -1}, {'bogus_kw': 1},
                {'precision': None}, {'precision': 2.5},
                # options a text writer might plausibly grow, with values
                # that can only fail inside open()
                {'encoding': 'utf-9'}, {'encoding': 'hex'},
                {'newline': 'x'}, {'errors': 5}, {'mode': 'q'}],
        'crtf': [{'coordsys': 'bogus'}, {'fmt': 'q'}, {'radunit': 'parsec'},
                 {'bogus_kw': 1}, {'coordsys': 'precessedgeocentric'},
                 {'fmt': None}, {'radunit': 'nonsense'},
                 {'encoding': 'utf-9'}, {'encoding': 'hex'},
                 {'newline': 'x'}],
        'fits': [{'header': {'t': 'dict', 'v': [['BAD', {'t': 'object'}]]}},
                 {'bogus_kw': 1}, {'header': 5},
                 {'header': {'t': 'dict', 'v': [['EXTNAME', 'REGION'],
                                                ['BAD KEY\n', 'x']]}}],
    }[fmt]
    return dict(rng.pick(menu))


def gen_step(rng, fmt, dest_state, overwrite, fault, encoding, names, idx):
    step = {'fmt': fmt}
    # ---- region list with the fault at a seeded position
    n = rng.randint(1, 8) if rng.chance(0.8) else 1
    if fault == 'none' and rng.chance(0.06):
        n = 0                 # an empty list is a list like any other
    regions = [_ok_region(rng, fmt) for _ in range(n)]
    label = {'dest_state': dest_state, 'fault': fault}
    kwargs = _good_kwargs(rng, fmt, regions)
    if fault in ('elem', 'warn_elem'):
        pos = rng.randrange(n)
        kind, bad = _failing_region(rng, fmt)
        regions[pos] = bad
        label['pos'] = pos
        label['elem'] = kind
        if kind == 'component' and n == 1:
            regions.append(_ok_region(rng, fmt))
    elif fault == 'unencodable':
        pos = rng.randrange(n)
        regions[pos] = _unencodable_region(rng, fmt, encoding)
        label['pos'] = pos
    elif fault == 'nonascii_ok':
        # not a fault at all under UTF-8: the write must succeed and read
        # back (the real interpreter reads UTF-8); under the other modelled
        # encodings the step degenerates to a plain one
        if encoding == 'utf-8' and fmt != 'fits':
            pos = rng.randrange(n)
            regions[pos] = _unencodable_region(rng, fmt, encoding,
                                               encodable=True)
            label['pos'] = pos
        else:
            label['fault'] = 'none'
    elif fault == 'bad_option':
        kwargs.update(_bad_kwargs(rng, fmt))
    step['api'] = 'Region' if (len(regions) == 1 and rng.chance(0.6)) \
        else 'Regions'
    step['regions'] = regions
    step['kwargs'] = kwargs
    # ---- destination and how the format is resolved
    res = rng.weighted([('explicit', 4), ('ext', 5), ('explicit_neutral', 2),
                        ('unknown_ext', 1), ('unknown_format', 1),
                        ('explicit_odd', 1.5)])
    ext = rng.pick(WRITE_EXT[fmt])
    if rng.chance(0.15):
        ext = ext.upper()
    base = rng.weighted([(f'out{idx}', 6), (f'out {idx}', 1),
                         (f'r\u00e9g{idx}', 1), (f'out$HOME{idx}', 0.4),
                         (f'out${{HOME}}{idx}', 0.3), (f'out{idx} ', 0.3),
                         (f're\u0301g{idx}', 0.3), (f'%out{idx}%', 0.2)])
    if res == 'explicit':
        step['format'] = fmt
        name = base + ext
    elif res == 'ext':
        step['format'] = None
        name = base + ext
    elif res == 'explicit_neutral':
        step['format'] = fmt
        name = base + rng.pick(['.txt', '.dat', ''])
    elif res == 'explicit_odd':
        # names with a leading dot, several dots, glob characters, or a
        # compression suffix (the format is given)
        step['format'] = fmt
        odd = ['.hidden' + base + ext, base + '.v1.2' + ext,
               base + '[1]*' + ext]
        if fmt != 'fits':
            # (astropy's FITS writer compresses by suffix; the text writers
            # write plain text whatever the name says)
            odd += [base + ext + '.gz', base + ext + '.bz2', base + '.gz']
        name = rng.pick(odd)
    elif res == 'unknown_ext':
        step['format'] = None
        name = base + rng.pick(['.txt', '.region', '.out'])
    else:
        step['format'] = rng.pick(['DS9', 'bogus', 'fit', ''])
        name = base + ext
    label['resolution'] = res
    prep = []
    # a quarter of the steps work in a sub-directory while the process'
    # working directory stays the disk root (relative symlink targets are
    # relative to the LINK, not to the working directory)
    sub = 'sub/' if rng.chance(0.25) else ''
    name = sub + name
    if dest_state == 'reuse' and names:
        name = rng.pick(names)
        implied = [f for e, f in ALL_EXT.items() if name.lower().endswith(e)]
        if step['format'] is None and implied != [fmt]:
            step['format'] = fmt      # a reused name decides nothing
            label['resolution'] = 'explicit'
    elif dest_state == 'missing_dir':
        name = f'nodir{idx}/' + os.path.basename(name)
    elif dest_state == 'badname':
        # a name the file system cannot take: the write must fail cleanly
        root, ext_ = os.path.splitext(os.path.basename(name))
        name = sub + rng.pick([root + 'x' * 300 + ext_,
                               root + '\x00' + ext_])
    elif dest_state == 'file_empty':
        prep.append({'op': 'mkfile', 'path': name, 'content': 'empty'})
    elif dest_state == 'file_junk':
        prep.append({'op': 'mkfile', 'path': name,
                     'content': rng.pick(['junk', 'text'])})
    elif dest_state == 'symlink_file':
        prep.append({'op': 'mkfile', 'path': f'{sub}target{idx}.dat',
                     'content': rng.pick(['junk', 'text', 'empty'])})
        prep.append({'op': 'symlink', 'path': name,
                     'target': f'target{idx}.dat'})
    elif dest_state == 'symlink_dangling':
        prep.append({'op': 'symlink', 'path': name,
                     'target': f'nothing{idx}.dat'})
    elif dest_state == 'symlink_chain':
        # name -> middle link -> file (or -> nothing)
        end = rng.pick(['file', 'file', 'nothing'])
        if end == 'file':
            prep.append({'op': 'mkfile', 'path': f'{sub}target{idx}.dat',
                         'content': rng.pick(['junk', 'text', 'empty'])})
        prep.append({'op': 'symlink', 'path': f'{sub}mid{idx}.lnk',
                     'target': f'target{idx}.dat'})
        prep.append({'op': 'symlink', 'path': name,
                     'target': f'mid{idx}.lnk'})
        label['chain_end'] = end
    elif dest_state == 'symlink_abs':
        # an absolute link target ({disk} is the run's private root)
        prep.append({'op': 'mkfile', 'path': f'target{idx}.dat',
                     'content': rng.pick(['junk', 'text', 'empty'])})
        prep.append({'op': 'symlink', 'path': name,
                     'target': '{disk}/' + f'target{idx}.dat'})
    elif dest_state == 'symlink_updir':
        # the link and its target live in different directories
        if sub:
            prep.append({'op': 'mkfile', 'path': f'target{idx}.dat',
                         'content': rng.pick(['junk', 'text', 'empty'])})
            prep.append({'op': 'symlink', 'path': name,
                         'target': f'../target{idx}.dat'})
        else:
            prep.append({'op': 'mkfile', 'path': f'sub/target{idx}.dat',
                         'content': rng.pick(['junk', 'text', 'empty'])})
            prep.append({'op': 'symlink', 'path': name,
                         'target': f'sub/target{idx}.dat'})
    elif dest_state == 'symlink_loop':
        if rng.chance(0.5):
            prep.append({'op': 'symlink', 'path': name,
                         'target': os.path.basename(name)})
        else:
            prep.append({'op': 'symlink', 'path': f'{sub}loop{idx}.lnk',
                         'target': os.path.basename(name)})
            prep.append({'op': 'symlink', 'path': name,
                         'target': f'loop{idx}.lnk'})
    elif dest_state == 'linked_parent':
        # the destination's directory is itself a symbolic link
        prep.append({'op': 'mkdir', 'path': f'realdir{idx}'})
        prep.append({'op': 'symlink', 'path': f'ldir{idx}',
                     'target': f'realdir{idx}'})
        name = f'ldir{idx}/' + os.path.basename(name)
        if rng.chance(0.5):
            prep.append({'op': 'mkfile', 'path': name,
                         'content': rng.pick(['junk', 'text', 'empty'])})
    elif dest_state == 'dotdot_link':
        # the name handed to the writer runs through a directory link and
        # back up with "..": the operating system resolves that to the
        # parent of the link's TARGET, a lexical clean-up of the string
        # (abspath / normpath) to the parent of the LINK
        prep.append({'op': 'mkdir', 'path': f'deep{idx}'})
        prep.append({'op': 'mkdir', 'path': f'deep{idx}/inner'})
        prep.append({'op': 'symlink', 'path': f'lnk{idx}',
                     'target': f'deep{idx}/inner'})
        bn = os.path.basename(name)
        name = f'deep{idx}/{bn}'
        step['dest_as'] = f'lnk{idx}/../{bn}'
        if rng.chance(0.6):
            prep.append({'op': 'mkfile', 'path': name,
                         'content': rng.pick(['junk', 'text', 'empty'])})
    elif dest_state == 'hardlink':
        # the destination has a second name
        prep.append({'op': 'mkfile', 'path': f'{sub}other{idx}.dat',
                     'content': rng.pick(['junk', 'text'])})
        prep.append({'op': 'hardlink', 'path': name,
                     'target': f'{sub}other{idx}.dat'})
    elif dest_state == 'symlink_dir':
        prep.append({'op': 'mkdir', 'path': f'{sub}adir{idx}'})
        prep.append({'op': 'symlink', 'path': name, 'target': f'adir{idx}'})
    elif dest_state == 'directory':
        prep.append({'op': 'mkdir', 'path': name})
    step['prep'] = prep
    step['dest'] = name
    step['overwrite'] = overwrite if (overwrite or rng.chance(0.5)) else None
    # other spellings of the flag: decided by truthiness, like a bool
    step['overwrite_as'] = rng.weighted(
        [('bool', 6), ('int', 1), ('numpy', 1), ('none', 1)])
    step['pathlib'] = rng.chance(0.25)
    # ... or as some other os.PathLike object
    step['pathlike'] = rng.chance(0.08)
    # the destination as a bytes path / format and overwrite given
    # positionally (write(filename, format, overwrite))
    step['bytes_path'] = (not step['pathlib']) and rng.chance(0.1)
    step['positional'] = rng.chance(0.2)
    step['label'] = label
    return step


def gen_plan(seed, index, tier='quick'):
    cfg_rng = Stream(seed, 'config')
    ops = Stream(seed, 'ops')
    fmt, dest_state, overwrite, fault = CELLS[index % len(CELLS)]
    cfg = {
        'warn': 'error' if fault == 'warn_elem' else
                cfg_rng.weighted([('default', 3), ('error', 1)]),
        'encoding': cfg_rng.weighted([('utf-8', 3), ('ascii', 1),
                                      ('latin-1', 1)]),
        'path_style': cfg_rng.weighted([('abs', 4), ('dotdot', 2),
                                        ('rel', 2), ('tilde', 1)]),
    }
    nsteps = cfg_rng.weighted([(1, 3), (2, 3), (3, 2), (4, 2)])
    steps = []
    names = []
    # the assigned cell is placed at a seeded step; others are drawn freely
    cell_at = cfg_rng.randrange(nsteps)
    for i in range(nsteps):
        if i == cell_at:
            c = (fmt, dest_state, overwrite, fault)
        else:
            c = (ops.pick(FORMATS),
                 ops.weighted([(d, 3 if d == 'reuse' else 1)
                               for d in DEST_STATES]),
                 ops.chance(0.5),
                 ops.weighted([('none', 4), ('elem', 2), ('bad_option', 1),
                               ('unencodable', 1)]))
        how = 'fresh'
        if i > 0 and c[3] == 'none':
            how = ops.weighted([('fresh', 8), ('same_objects', 4),
                                ('from_readback', 3)])
            if how == 'same_objects' and (
                    steps[i - 1]['label']['fault'] != 'none'
                    or (i == cell_at and steps[i - 1]['fmt'] != c[0])):
                how = 'fresh'     # (the fault would travel with the objects)
            if how == 'from_readback' and \
                    steps[i - 1]['label']['fault'] != 'none':
                how = 'fresh'     # (... or with the file)
            if how == 'same_objects':
                c = (steps[i - 1]['fmt'],) + tuple(c[1:])
            if how != 'fresh' and i != cell_at and ops.chance(0.5):
                # more often than not, let the second write go through
                c = (c[0], ops.pick(['absent', 'reuse', 'file_junk']), True,
                     c[3])
        st = gen_step(ops, c[0], c[1], c[2], c[3], cfg['encoding'], names, i)
        if st['label']['fault'] != 'none':
            how = 'fresh'
        if how != 'fresh':
            if how == 'same_objects':
                # the very objects the previous step wrote, in the same
                # format but with other option values (a writer must not
                # leave marks on what it has written, nor remember how it
                # wrote it)
                prev = steps[i - 1]
                st['regions'] = prev['regions']
                st['source'] = 'same_objects'
                # through the same entry point: the very Regions (or Region)
                # object is written again
                st['api'] = prev['api']
                kw = dict(prev['kwargs'])
                if c[0] == 'ds9':
                    kw['precision'] = 1 if kw.get('precision') != 1 else 9
                elif c[0] == 'crtf':
                    which = ops.pick(['fmt', 'radunit', 'coordsys'])
                    if which == 'fmt':
                        kw['fmt'] = '.1f' if kw.get('fmt') != '.1f' else '.6f'
                    elif which == 'radunit':
                        kw['radunit'] = 'arcsec' \
                            if kw.get('radunit') != 'arcsec' else 'arcmin'
                    elif kw.get('coordsys') != 'image':
                        kw['coordsys'] = 'galactic' \
                            if kw.get('coordsys') != 'galactic' else 'icrs'
                elif c[0] == 'fits':
                    if 'header' in kw:
                        del kw['header']
                    else:
                        kw['header'] = {'t': 'dict', 'v': [
                            ['EXTNAME', 'REGION'], ['OBSERVER', 'verif']]}
                if ops.chance(0.3):
                    kw = dict(prev['kwargs'])     # the identical call again
                st['kwargs'] = kw
                if i != cell_at and prev['overwrite'] and \
                        '\x00' not in prev['dest'] and ops.chance(0.3):
                    # ... and once more onto the file just written, this
                    # time WITHOUT permission to overwrite
                    st['dest'] = prev['dest']
                    st.pop('dest_as', None)
                    if 'dest_as' in prev:
                        st['dest_as'] = prev['dest_as']
                    st['prep'] = []
                    st['overwrite'] = ops.pick([False, None])
                    st['format'] = c[0]
                    st['label']['dest_state'] = 'reuse'
                    st['label']['resolution'] = 'explicit'
            elif how == 'from_readback':
                # what the previous step wrote, read back from its file
                st['source'] = 'from_readback'
                st['api'] = 'Regions'
        steps.append(st)
        if st['dest'] not in names and not st['dest'].startswith('nodir'):
            names.append(st['dest'])
    return {'engine': ENGINE, 'property': PROPERTY, 'seed': seed,
            'index': index, 'cell': [fmt, dest_state, overwrite, fault],
            'cfg': cfg, 'steps': steps}


# ------------------------------------------------------------- execution
JUNK = bytes(range(256)) * 3 + b'\x00JUNK\xff'
TEXT = b'this is not a region file\nsecond line\n'


def snapshot(root):
    """relpath -> entry description for everything below ``root``."""
    out = {}
    for dirpath, dirnames, filenames in os.walk(root, followlinks=False):
        for name in sorted(dirnames + filenames):
            p = os.path.join(dirpath, name)
            rel = os.path.relpath(p, root)
            st = os.lstat(p)
            if stat.S_ISLNK(st.st_mode):
                out[rel] = ['link', os.readlink(p).replace(root, '<disk>')]
            elif stat.S_ISDIR(st.st_mode):
                out[rel] = ['dir', stat.S_IMODE(st.st_mode)]
            else:
                with open(p, 'rb') as fh:
                    data = fh.read()
                out[rel] = ['file', len(data),
                            hashlib.sha1(data).hexdigest()[:16],
                            stat.S_IMODE(st.st_mode)]
        dirnames.sort()
    return out


def snap_diff(a, b):
    """List of [relpath, before, after] for entries that differ."""
    out = []
    for k in sorted(set(a) | set(b)):
        if a.get(k) != b.get(k):
            out.append([k, a.get(k), b.get(k)])
    return out


def _describe_change(ch):
    rel, before, after = ch
    if before is None:
        return f'{rel}: created {after}'
    if after is None:
        return f'{rel}: removed (was {before})'
    return f'{rel}: {before} -> {after}'


_ADDR = re.compile(r'0x[0-9a-fA-F]+')


def clean_msg(exc, root):
    """Exception text without run-specific paths and memory addresses."""
    return _ADDR.sub('0x', str(exc)[:300].replace(root, '<run>'))[:200]


class _PathLike:
    """A minimal os.PathLike that is neither str nor pathlib.Path."""

    def __init__(self, p):
        self._p = p

    def __fspath__(self):
        return self._p

    def __repr__(self):
        return f'_PathLike({self._p!r})'


class Run:
    def __init__(self, plan, ctx):
        self.plan = plan
        self.ctx = ctx
        self.cfg = plan['cfg']
        self.events = []
        self.violations = []
        self.known_hits = []
        self.stats = {'steps': 0, 'raised': 0, 'returned': 0, 'refused': 0,
                      'readbacks': 0, 'ref_unavailable': 0,
                      'fault_planned': {}, 'fault_fired': {},
                      'cells': [], 'exc_classes': {}}
        base = ctx.get('tmp') or ('/dev/shm' if os.path.isdir('/dev/shm')
                                  else '/tmp')
        self.root = os.path.join(
            base, 'regions-verif', f'{os.getpid()}-{plan["seed"]}')
        self.disk = os.path.join(self.root, 'disk')
        self.scratch = os.path.join(self.root, 'scratch')
        self.probe_rng = Stream(plan['seed'], 'probe')

    # -- helpers
    def path(self, rel, root=None):
        root = root or self.disk
        style = self.cfg['path_style']
        if style == 'abs':
            return os.path.join(root, rel)
        if style == 'dotdot':
            return os.path.join(root, 'sub', '..', rel)
        if style == 'tilde':
            # "~/name" with HOME pointing at the run disk (the text writers
            # do not expand "~", astropy's FITS writer does)
            return '~/' + rel if root == self.disk else \
                os.path.join(root, rel)
        # rel: relative to cwd (= disk)
        return os.path.relpath(os.path.join(root, rel), os.getcwd())

    def real_rel(self, rel):
        d, b = os.path.split(os.path.join(self.disk, rel))
        try:
            d = os.path.realpath(d)
        except (OSError, ValueError):
            pass
        return os.path.normpath(os.path.relpath(os.path.join(d, b),
                                                os.path.realpath(self.disk)))

    def link_closure(self, rel):
        out = set()
        cur = rel
        for _ in range(12):
            cur = self.real_rel(cur)
            if cur in out:
                break
            out.add(cur)
            full = os.path.join(self.disk, cur)
            try:
                if not os.path.islink(full):
                    break
                t = os.readlink(full)
            except (OSError, ValueError):
                break
            if os.path.isabs(t):
                cur = os.path.relpath(t, os.path.realpath(self.disk))
            else:
                cur = os.path.normpath(os.path.join(os.path.dirname(cur), t))
        # other names of the same inode
        try:
            st = os.stat(os.path.join(self.disk, rel))
            if stat.S_ISREG(st.st_mode) and st.st_nlink > 1:
                for dirpath, _, files in os.walk(self.disk):
                    for f in files:
                        p = os.path.join(dirpath, f)
                        try:
                            s2 = os.lstat(p)
                        except OSError:
                            continue
                        if s2.st_ino == st.st_ino and \
                                stat.S_ISREG(s2.st_mode):
                            out.add(os.path.relpath(p, self.disk))
        except (OSError, ValueError):
            pass
        return out

    def violation(self, oracle, step_i, step, detail, extra=None):
        sig = {'property': PROPERTY, 'oracle': oracle, 'fmt': step['fmt'],
               'detail': detail,
               'fault': (step.get('label') or {}).get('fault', ''),
               'damage': (extra or {}).get('damage', '')}
        v = {'oracle': oracle, 'step': step_i, 'fmt': step['fmt'],
             'detail': detail, 'label': step.get('label'), 'extra': extra}
        from sim.findings import match_known
        k = match_known(self.ctx.get('findings', []), sig)
        if k:
            self.known_hits.append({'id': k, **v})
        else:
            self.violations.append(v)

    def call_write(self, step, dest_path, trace):
        if step.get('pathlib') and step['format'] is not None:
            # the destination as an os.PathLike object (only with the format
            # given: extension-based identification documents str names)
            import pathlib
            dest_path = pathlib.Path(dest_path)
        elif step.get('pathlike') and step['format'] is not None and \
                isinstance(dest_path, str):
            dest_path = _PathLike(dest_path)
        if step.get('bytes_path') and step['format'] is not None and \
                isinstance(dest_path, str) and \
                self.cfg['path_style'] != 'tilde':
            dest_path = os.fsencode(dest_path)
        regs = [build(r) for r in step['regions']]
        src = step.get('source')
        from_recipes = True
        if src == 'same_objects' and getattr(self, 'prev_regs', None) \
                is not None and step['regions'] == self.prev_recipes \
                and self.prev_from_recipes:
            # (only while the plan still says so: a minimised plan whose
            # steps no longer share their recipes builds fresh objects)
            regs = self.prev_regs
        rb_target = None
        if src == 'from_readback':
            # the very object Regions.read returned is written (a reader
            # must not leave a memory of the file on what it returns)
            rb_target = self.read_prev(as_object=True)
            if rb_target is not None:
                regs = list(rb_target)
                from_recipes = False
        self.last_regs = regs
        self.last_from_recipes = from_recipes
        kw = {k: build(v) for k, v in step['kwargs'].items()}
        if step['overwrite'] is not None:
            import numpy as np
            how = step.get('overwrite_as', 'bool')
            ow = bool(step['overwrite'])
            kw['overwrite'] = {'bool': ow, 'int': int(ow),
                               'numpy': np.bool_(ow),
                               'none': True if ow else None}[how]
        if step['format'] is not None:
            kw['format'] = step['format']
        if step['api'] == 'Region':
            target = regs[0]
        elif src == 'same_objects' and regs is getattr(self, 'prev_regs', 0) \
                and getattr(self, 'prev_target', None) is not None \
                and type(self.prev_target).__name__ == 'Regions':
            target = self.prev_target        # the same Regions object again
        elif rb_target is not None:
            target = rb_target
        else:
            from regions import Regions
            target = Regions(regs)
        self.last_target = target
        wrec = []
        with FsSeam(self.disk, self.cfg['encoding']) as seam:
            pos = []
            if step.get('positional') and 'format' in kw and \
                    'overwrite' in kw:
                pos = [kw.pop('format'), kw.pop('overwrite')]
            try:
                with warnings_mode(self.cfg['warn'], wrec):
                    target.write(dest_path, *pos, **kw)
                outcome = ['ok']
            except Exception as exc:
                outcome = ['raise', type(exc).__name__,
                           clean_msg(exc, self.root), isinstance(exc, OSError)]
        trace.extend(seam.trace)
        return outcome, wrec

    def read_prev(self, as_object=False):
        """Fresh objects read from the file the previous successful step
        wrote (None if there is none)."""
        from regions import Regions
        prev = getattr(self, 'prev_file', None)
        if not prev or not os.path.isfile(prev[0]):
            return None
        try:
            wrec = []
            with warnings_mode('default', wrec):
                got = Regions.read(prev[0], format=prev[1])
                return got if as_object else list(got)
        except Exception:
            return None

    def reference(self, step):
        """parse(serialize(fresh regions)) computed independently of the
        file; returns canon list or None if unavailable."""
        from regions import Regions
        fmt = step['fmt']
        try:
            regs = [build(r) for r in step['regions']]
            if step.get('source') == 'from_readback':
                regs = self.ref_prev if self.ref_prev is not None else regs
            kw = {k: build(v) for k, v in step['kwargs'].items()
                  if k != 'header'}
            wrec = []
            with warnings_mode('default', wrec):
                ser = Regions(regs).serialize(format=fmt, **kw)
                ref = Regions.parse(ser, format=fmt)
            return ref
        except Exception:
            return None

    # -- the run
    def execute(self):
        shutil.rmtree(self.root, ignore_errors=True)
        os.makedirs(os.path.join(self.disk, 'sub'))
        os.makedirs(self.scratch)
        # a bystander file that no write may ever touch
        with open(os.path.join(self.disk, 'bystander.reg'), 'wb') as fh:
            fh.write(TEXT)
        cwd = os.getcwd()
        os.environ['HOME'] = self.disk
        os.chdir(self.disk)
        try:
            last = snapshot(self.disk)
            for i, step in enumerate(self.plan['steps']):
                last = self.do_step(i, step, last)
            gc.collect()
            end = snapshot(self.disk)
            d = snap_diff(last, end)
            if d:
                self.violation('W4-late-effect', len(self.plan['steps']) - 1,
                               self.plan['steps'][-1],
                               'disk changed after the last step: '
                               + '; '.join(_describe_change(c) for c in d))
        finally:
            os.chdir(cwd)
            shutil.rmtree(self.root, ignore_errors=True)
        return self.result()

    def apply_prep(self, prep):
        for p in prep:
            full = os.path.join(self.disk, p['path'])
            if os.path.lexists(full):
                continue            # state already exists from an earlier step
            if p['op'] == 'mkfile':
                data = {'empty': b'', 'junk': JUNK, 'text': TEXT}[p['content']]
                with open(full, 'wb') as fh:
                    fh.write(data)
            elif p['op'] == 'symlink':
                os.symlink(p['target'].replace('{disk}', self.disk), full)
            elif p['op'] == 'hardlink':
                os.link(os.path.join(self.disk, p['target']), full)
            elif p['op'] == 'mkdir':
                os.mkdir(full)

    def do_step(self, i, step, last):
        st = self.stats
        st['steps'] += 1
        fault = step['label']['fault']
        st['fault_planned'][fault] = st['fault_planned'].get(fault, 0) + 1
        start = snapshot(self.disk)
        d = snap_diff(last, start)
        if d:
            self.violation('W4-late-effect', i, step,
                           'disk changed between steps: '
                           + '; '.join(_describe_change(c) for c in d))
        self.apply_prep(step['prep'])
        before = snapshot(self.disk)
        dest_rel = os.path.normpath(step['dest'])
        dest_path = self.path(step['dest'])
        if step.get('dest_as') and not (
                self.cfg['path_style'] == 'tilde' and step['fmt'] != 'fits'):
            # another spelling of the same destination (never normalised;
            # not for "~/..." names handed to the text writers, which take
            # them literally - two re-interpretations at once say nothing)
            style = self.cfg['path_style']
            dest_path = {'abs': os.path.join(self.disk, step['dest_as']),
                         'dotdot': os.path.join(self.disk, 'sub', '..',
                                                step['dest_as']),
                         'tilde': '~/' + step['dest_as'],
                         'rel': step['dest_as']}[style]
        existed = os.path.lexists(os.path.join(self.disk, dest_rel))
        # the snapshot does not descend into linked directories: the entry
        # of the destination is the one below its real parent directory
        dest_link = dest_rel
        dest_rel = self.real_rel(dest_rel)
        # every entry the destination name leads to (links resolved hop by
        # hop) and every other name of the same file (hard links)
        reachable = self.link_closure(dest_rel)
        if self.cfg['path_style'] == 'tilde' and step['fmt'] != 'fits':
            # the text writers document plain file names and do not expand
            # "~": for them "~/name" is a relative path below a directory
            # called "~", which does not exist
            existed = os.path.lexists(dest_path)
        dest_before = before.get(dest_rel)
        trace = []
        # (for 'from_readback' steps the reference is taken from a second,
        # independent read of the previous file, before this write can
        # touch that file)
        self.ref_prev = self.read_prev() \
            if step.get('source') == 'from_readback' else None
        outcome, wrec = self.call_write(step, dest_path, trace)
        self.prev_regs = self.last_regs if outcome[0] == 'ok' else None
        self.prev_target = self.last_target if outcome[0] == 'ok' else None
        self.prev_recipes = step['regions']
        self.prev_from_recipes = self.last_from_recipes
        after = snapshot(self.disk)
        changes = snap_diff(before, after)
        ev = {'step': i, 'fmt': step['fmt'], 'api': step['api'],
              'dest': dest_rel, 'existed': existed,
              'dest_before': dest_before and dest_before[0],
              'overwrite': step['overwrite'], 'outcome': outcome[:3],
              'changes': [c[0] for c in changes], 'warnings': len(wrec),
              'label': step['label'], 'trace': trace[:40]}
        self.events.append(ev)
        refuse = existed and not step['overwrite']

        if outcome[0] == 'raise':
            st['raised'] += 1
            st['exc_classes'][outcome[1]] = \
                st['exc_classes'].get(outcome[1], 0) + 1
            if fault != 'none':
                st['fault_fired'][fault] = st['fault_fired'].get(fault, 0) + 1
            # W2 failure atomicity (covers W1's "byte-identical" too)
            if changes:
                # the shape of the damage (a known finding is matched on it,
                # so that it cannot swallow damage of another kind)
                damage = 'other'
                try:
                    inodes = {os.lstat(os.path.join(self.disk, c[0])).st_ino
                              for c in changes}
                except OSError:
                    inodes = set()
                if all(c[0] in reachable and (c[2] or [None])[0] == 'file'
                       for c in changes) and len(inodes) == 1:
                    # one file (under all its names) created or rewritten,
                    # nothing removed, nothing else touched
                    damage = 'destination-file-incomplete'
                self.violation(
                    'W2-atomic', i, step,
                    f'write raised {outcome[1]} but the disk changed: '
                    + '; '.join(_describe_change(c) for c in changes),
                    {'exception': outcome[1:3], 'overwrite': step['overwrite'],
                     'dest_before': dest_before, 'damage': damage})
            if refuse:
                st['refused'] += 1
                if not outcome[3]:
                    # W1 exception class.  "Writing to a path that already
                    # exists without overwrite=True raises OSError": demanded
                    # whenever a writer is reached at all, i.e. unless the
                    # format cannot be resolved (IORegistryError) or the call
                    # passes a keyword the writer does not have (TypeError
                    # when the arguments are bound).
                    known_kw = {'ds9': {'precision'},
                                'crtf': {'coordsys', 'fmt', 'radunit'},
                                'fits': {'header'}}[step['fmt']]
                    unbound = set(step['kwargs']) - known_kw
                    odd_flag = step['overwrite'] is not None and \
                        step.get('overwrite_as', 'bool') != 'bool'
                    if outcome[1] == 'IORegistryError' or \
                            (unbound and outcome[1] == 'TypeError') or \
                            (odd_flag and outcome[1] in ('TypeError',
                                                         'ValueError')):
                        # (... or spells the flag as something other than a
                        # bool, which a writer may refuse to interpret)
                        pass
                    else:
                        self.violation(
                            'W1-class', i, step,
                            f'existing destination ({dest_before}) without '
                            f'overwrite raised {outcome[1]}: {outcome[2]} '
                            f'(not OSError)')
            return after

        # ---- the call returned
        st['returned'] += 1
        if refuse:
            self.violation(
                'W1-refusal', i, step,
                f'destination existed ({dest_before}) and overwrite='
                f'{step["overwrite"]!r}, yet write() returned; disk changes: '
                + '; '.join(_describe_change(c) for c in changes))
        # W1 (path-interpretation independent): without overwrite=True no
        # entry that existed before the call may be modified or removed,
        # however the writer chose to interpret the name it was given
        if not step['overwrite']:
            clobbered = [c for c in changes if c[1] is not None]
            if clobbered and not refuse:
                self.violation(
                    'W1-clobber', i, step,
                    f'overwrite={step["overwrite"]!r}, yet write() returned '
                    f'after modifying existing entries: '
                    + '; '.join(_describe_change(c) for c in clobbered))
        # W3: only the destination (or what it links to) may change
        lit = os.path.join('~', os.path.normpath(step['dest']))
        if self.cfg['path_style'] == 'tilde' and step['fmt'] != 'fits' and \
                any(c[0] == lit for c in changes):
            dest_rel = os.path.normpath(step['dest'])
            # a text writer that takes "~/name" literally (a directory called
            # "~" below the working directory) has written there: either
            # interpretation of the name is the writer's business
            dest_rel = os.path.join('~', dest_rel)
            reachable = {dest_rel}
        allowed = set(reachable)
        # a writer may create the missing directories of the destination
        anc = os.path.dirname(dest_rel)
        while anc:
            if before.get(anc) is None and \
                    (after.get(anc) or [None])[0] == 'dir':
                allowed.add(anc)
            anc = os.path.dirname(anc)
        collateral = [c for c in changes if c[0] not in allowed]
        if collateral:
            self.violation('W3-collateral', i, step,
                           'successful write changed other entries: '
                           + '; '.join(_describe_change(c)
                                       for c in collateral))
        full = os.path.join(self.disk, dest_rel)
        if not os.path.isfile(full):
            self.prev_file = None
            self.violation('W3-notfile', i, step,
                           f'after a successful write the destination is '
                           f'not a regular file: {after.get(dest_rel)}')
            return after
        self.prev_file = (full, step['fmt'])
        self.readback(i, step, dest_rel,
                      os.path.join(self.disk, dest_rel)
                      if self.cfg['path_style'] == 'tilde' else dest_path)
        if self.probe_rng.random() < 0.1:
            self.probe_diskfull(step, os.path.getsize(full))
        after2 = snapshot(self.disk)
        d = snap_diff(after, after2)
        if d:
            self.violation('W4-read-modified', i, step,
                           'reading back changed the disk: '
                           + '; '.join(_describe_change(c) for c in d))
        return after2

    def probe_diskfull(self, step, size):
        """PROBE CLASS, never a violation (R1 in DESIGN.md): repeat a write
        that just succeeded, in a scratch directory, with the kernel refusing
        to let any file grow beyond N bytes (RLIMIT_FSIZE; the real file
        objects see EFBIG, no wrapper).  Records what is left behind."""
        import resource
        import signal
        pdir = os.path.join(self.scratch, 'probe')
        shutil.rmtree(pdir, ignore_errors=True)
        os.makedirs(pdir)
        dest = os.path.join(pdir, os.path.basename(step['dest']))
        existing = self.probe_rng.random() < 0.5
        if existing:
            with open(dest, 'wb') as fh:
                fh.write(TEXT)
        n = int(self.probe_rng.random() * max(size, 1))
        st = dict(step)
        st['overwrite'] = True
        old = resource.getrlimit(resource.RLIMIT_FSIZE)
        oldsig = signal.signal(signal.SIGXFSZ, signal.SIG_IGN)
        try:
            resource.setrlimit(resource.RLIMIT_FSIZE, (n, old[1]))
            outcome, _ = self.call_write(st, dest, [])
        finally:
            resource.setrlimit(resource.RLIMIT_FSIZE, old)
            signal.signal(signal.SIGXFSZ, oldsig)
        if outcome[0] == 'ok':
            state = 'write-succeeded'
        elif not os.path.lexists(dest):
            state = 'raised:destination-absent'
        else:
            with open(dest, 'rb') as fh:
                data = fh.read()
            if existing and data == TEXT:
                state = 'raised:old-content-intact'
            else:
                state = 'raised:partial-or-truncated-file'
        key = f'{step["fmt"]}:{"existing" if existing else "absent"}:{state}'
        d = self.stats.setdefault('beyond_property_disk_full', {})
        d[key] = d.get(key, 0) + 1
        shutil.rmtree(pdir, ignore_errors=True)

    def control_succeeds(self, step):
        cdir = os.path.join(self.scratch, 'control')
        shutil.rmtree(cdir, ignore_errors=True)
        os.makedirs(cdir)
        dest = os.path.join(cdir, os.path.basename(step['dest']))
        outcome, _ = self.call_write(step, dest, [])
        shutil.rmtree(cdir, ignore_errors=True)
        return outcome[0] == 'ok'

    def readback(self, i, step, dest_rel, dest_path):
        from regions import Regions
        fmt = step['fmt']
        hdr = step['kwargs'].get('header')
        named = [str(v).upper() for k, v in (hdr or {}).get('v', [])
                 if str(k).upper() == 'EXTNAME'] \
            if isinstance(hdr, dict) else []
        if named and named[0] != 'REGION':
            # the caller named the extension otherwise: such a file is not
            # meant to be found by Regions.read (later default writes are)
            self.stats['readback_skipped_custom_extname'] = \
                self.stats.get('readback_skipped_custom_extname', 0) + 1
            return
        ref = self.reference(step)
        if ref is None:
            self.stats['ref_unavailable'] += 1
            k = 'ref_unavailable_' + fmt
            self.stats[k] = self.stats.get(k, 0) + 1
            return
        k = 'readback_steps_' + fmt
        self.stats[k] = self.stats.get(k, 0) + 1
        import sim.fingerprint as F
        ref_c = F.canon_value(ref)
        with open(os.path.join(self.disk, dest_rel), 'rb') as fh:
            data = fh.read()
        gz = gzip.compress(data, mtime=0)
        variants = [('format', dest_path, fmt)]
        lower = re.sub(r'\.(gz|bz2)$', '', dest_rel.lower())
        ext_fmt = [f for e, f in ALL_EXT.items() if lower.endswith(e)]
        if not ext_fmt or ext_fmt[0] == fmt:
            variants.append(('inferred', dest_path, None))
        # one directory of copies for the whole run, the same names in every
        # step: a reader must not remember what a path held before
        rb = os.path.join(self.scratch, 'rb')
        os.makedirs(os.path.join(rb, 'sub'), exist_ok=True)

        def put(name, content):
            with open(os.path.join(rb, name), 'wb') as fh:
                fh.write(content)
            return self.path(name, rb)
        import pathlib
        variants.append(('pathlib-format', pathlib.Path(put('copyp.dat',
                                                            data)), fmt))
        variants.append(('pathlib-sniffed', pathlib.Path(put('copyq.dat',
                                                             data)), None))
        variants.append(('renamed', put('copy.dat', data), None))
        # the same copy as the os.PathLike that os.scandir() hands out
        try:
            ent = [e for e in os.scandir(rb) if e.name == 'copy.dat'][0]
            variants.append(('direntry-sniffed', ent, None))
            variants.append(('direntry-format', ent, fmt))
        except (OSError, IndexError):
            pass
        variants.append(('renamed-noext', put('copy', data), None))
        for e in READ_GZ_EXT[fmt]:
            variants.append(('gz' + e, put('copy' + e, gz), None))
        variants.append(('gz-format', put('copyf' + READ_GZ_EXT[fmt][0], gz),
                         fmt))
        variants.append(('gz-neutral', put('copy.bin', gz), None))
        for e in WRITE_EXT[fmt]:
            variants.append(('ext' + e, put('copy' + e, data), None))
        if data[:2] == b'\x1f\x8b' or data[:3] == b'BZh':
            # astropy's FITS writer compresses when the NAME asks for it
            # (.gz / .bz2): the file on disk already is the compressed form,
            # so copies of it are not "a renamed or gzip-compressed copy" of
            # a region file; only the read of the destination itself applies
            variants = [v for v in variants if v[0] == 'format']
            self.stats['readback_compressed_by_name'] = \
                self.stats.get('readback_compressed_by_name', 0) + 1
        for name, path, f in variants:
            self.stats['readbacks'] += 1
            wrec = []
            try:
                with warnings_mode('default', wrec):
                    got = Regions.read(path, format=f)
            except Exception as exc:
                self.violation(
                    'W3-readback', i, step,
                    f'variant {name}: read raised {type(exc).__name__}: '
                    + clean_msg(exc, self.root)[:120])
                continue
            problem = None
            if len(got) != len(ref):
                problem = f'{len(got)} regions read, {len(ref)} expected'
            else:
                for j, (a, b) in enumerate(zip(got.regions, ref.regions)):
                    try:
                        if not (a == b) or (a != b):
                            problem = f'region {j} not equal: {a!r} vs {b!r}'
                            break
                    except Exception as exc:
                        problem = f'region {j}: == raised {exc!r}'
                        break
            if problem is None:
                got_c = F.canon_value(got)
                if got_c != ref_c:
                    problem = 'value fingerprint differs at ' + \
                        str(diff(got_c, ref_c))
            if problem:
                self.violation('W3-readback', i, step,
                               f'variant {name}: {problem}'[:400])

    def result(self):
        # the run digest (determinism self-test) covers everything the
        # harness decides and every outcome class, but no free text: message
        # texts and the seam trace may legitimately carry run-specific detail
        # (e.g. the random name of a temporary file used by an atomic writer)
        digest = fpc([[{k: (v[:2] if k == 'outcome' else v)
                        for k, v in e.items() if k != 'trace'}
                       for e in self.events],
                      [[v['oracle'], v['step'], v['fmt']]
                       for v in self.violations + self.known_hits]])
        return {'seed': self.plan['seed'], 'index': self.plan.get('index'),
                'schedule_digest': digest,
                'events': self.events, 'violations': self.violations,
                'known_hits': self.known_hits, 'stats': self.stats,
                'digest': digest}


def execute(plan, ctx):
    return Run(plan, ctx).execute()


def abstract_states(result):
    """Measure of distinct abstract states reached by a run."""
    out = set()
    for ev in result['events']:
        out.add((ev['fmt'], ev['api'], ev['dest_before'], bool(ev['overwrite']),
                 ev['label']['fault'], ev['label'].get('elem'),
                 ev['outcome'][0], ev['outcome'][1] if len(ev['outcome']) > 1
                 else '', ev['label'].get('resolution')))
    return out


# ------------------------------------------------------ driver interface
RULE = ('seeded search: run i is assigned cell (i mod #cells) of format x '
        'destination-state x overwrite x fault-kind (all 612 cells), the '
        'remaining 0-3 steps, list lengths, failing position, API, format '
        'resolution, options and ambient configuration are drawn from the '
        'run seed. A state is the tuple (format, api, destination entry '
        'before, overwrite, planned fault, failing-element kind, outcome, '
        'exception class, format resolution) of one write step; it is '
        'non-trivial unless it is a fault-free successful write to an '
        'absent destination. distinct_nontrivial counts distinct such '
        'tuples.')
COMPONENTS = {
    'real': ['regions (working tree)', 'numpy', 'astropy (units, '
             'coordinates, table, io.fits, utils.data)', 'kernel tmpfs file '
             'system', 'gzip'],
    'modelled_at_seam': ['ambient locale encoding of text-mode open() '
                         '(utf-8/ascii/latin-1)', 'warnings filter'],
    'stub': [],
}
ASSUMPTIONS = [
    'a failure means: determined by the call arguments and the ambient '
    'configuration (R1 in DESIGN.md); ENOSPC/EIO after open are out of scope',
    'the conventional extensions per format are written down in the harness',
    'successful writes contain ASCII only, so the read side does not depend '
    'on the modelled encoding',
]


def preload():
    import regions  # noqa
    import astropy.io.fits  # noqa
    import astropy.table  # noqa
    import astropy.utils.data  # noqa


def tiers(**kw):
    return {'quick': {'runs': 2448, 'selftest': 24, 'limit': 120,
                      'chunk': 12},
            'thorough': {'runs': 61200, 'selftest': 256, 'limit': 120,
                         'chunk': 40, 'min_budget': 250}}


def nontrivial(state_repr):
    return not ("None, False, 'none', None, 'ok'" in state_repr
                or "None, True, 'none', None, 'ok'" in state_repr)


def signature(v):
    import re
    d = v['detail']
    m = re.search(r'raised (\w+)', d)
    exc = m.group(1) if m else ''
    variant = ''
    m = re.match(r'variant ([\w.\-]+):', d)
    if m:
        variant = 'variant'
    return (PROPERTY, v['oracle'], v['fmt'], exc, variant)


def describe(plan, res):
    lines = [f'fsx run seed={plan["seed"]} cfg={json_s(plan["cfg"])}']
    evs = {e['step']: e for e in res['events']}
    for i, s in enumerate(plan['steps']):
        prep = ', '.join(f'{p["op"]} {p["path"]}'
                         + (f'->{p["target"]}' if 'target' in p else '')
                         for p in s['prep'])
        regs = [r.get('cls', r.get('t')) for r in s['regions']]
        lines.append(
            f'  step {i}: prep[{prep}] {s["api"]}.write('
            f'{s.get("dest_as") or s["dest"]!r}, '
            f'format={s["format"]!r}, overwrite={s["overwrite"]!r}, '
            f'pathlib={bool(s.get("pathlib") and s["format"] is not None)}, '
            f'**{json_s(s["kwargs"])}) fmt={s["fmt"]} regions={regs} '
            f'fault={json_s(s["label"])}')
        e = evs.get(i)
        if e:
            lines.append(f'      -> {e["outcome"]} changes={e["changes"]} '
                         f'dest_before={e["dest_before"]} '
                         f'trace={[t[1] + ":" + str(t[2]) for t in e["trace"][:12]]}')
    return lines


def json_s(x):
    import json
    return json.dumps(x, sort_keys=True)


def shrink(plan):
    """Yield smaller plans (drop steps, shorten lists, drop options,
    simplify the configuration)."""
    import copy
    steps = plan['steps']
    for i in range(len(steps)):
        if len(steps) > 1:
            p = copy.deepcopy(plan)
            del p['steps'][i]
            yield p
    for i, s in enumerate(steps):
        n = len(s['regions'])
        if n > 1:
            for lo, hi in ((0, n // 2), (n // 2, n)):
                p = copy.deepcopy(plan)
                del p['steps'][i]['regions'][lo:hi]
                if p['steps'][i]['regions']:
                    yield p
            for j in range(n):
                p = copy.deepcopy(plan)
                del p['steps'][i]['regions'][j]
                yield p
        for k in list(s['kwargs']):
            p = copy.deepcopy(plan)
            del p['steps'][i]['kwargs'][k]
            yield p
        for j, r in enumerate(s['regions']):
            for key in ('meta', 'visual'):
                if key in r and r[key]['v']:
                    p = copy.deepcopy(plan)
                    p['steps'][i]['regions'][j][key]['v'] = []
                    yield p
        if len(s['prep']) > 0 and s['label']['dest_state'] not in (
                'absent',):
            pass
    for key, simple in (('warn', 'default'), ('encoding', 'utf-8'),
                        ('path_style', 'abs')):
        if plan['cfg'][key] != simple:
            p = copy.deepcopy(plan)
            p['cfg'][key] = simple
            yield p
