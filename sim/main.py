"""Entry point of every check: ``main.py <property> [--tier T] [--replay F]``.

Exit status: 0 = the property held on everything explored (KNOWN-FINDING
lines are printed for listed findings that were re-observed); 1 = a violation
that is not a listed finding (``VIOLATION property=<id> replay=<path>``);
2 = harness error / timeout (never reported as 0).
"""
import argparse
import copy
import hashlib
import importlib
import json
import os
import subprocess
import sys
import time

HERE = os.path.dirname(os.path.abspath(__file__))
VERIF = os.path.dirname(HERE)

ENGINES = {'C14': ('fsx', {}), 'C16': ('val', {'mode': 'c16'}),
           'C17': ('val', {'mode': 'c17'}), 'C13': ('hist', {})}


def _setup_path():
    repo = os.environ.get('VERIF_REPO', '/repo')
    for p in (VERIF, repo):
        if p in sys.path:
            sys.path.remove(p)
    sys.path.insert(0, repo)
    sys.path.insert(0, VERIF)
    return repo


def _ensure_hashseed():
    if os.environ.get('PYTHONHASHSEED') is None:
        env = dict(os.environ, PYTHONHASHSEED='0')
        os.execve(sys.executable, [sys.executable] + sys.argv, env)


# ------------------------------------------------------------------ runs
_CTX = {}


def _exec_in_child(plan):
    eng = _CTX['engine']
    return eng.execute(plan, _CTX['ctx'])


def run_plan(plan, limit=None):
    from sim.procs import fork_call
    return fork_call(_exec_in_child, plan, limit or _CTX['limit'])


def full_run(plan):
    """Execute a plan in a fork and apply the engine's worker-side checks
    (reference evaluations in further pristine forks)."""
    from sim.procs import fork_call
    eng = _CTX['engine']
    res = run_plan(plan)
    if hasattr(eng, 'worker_post'):
        res = eng.worker_post(plan, res, _CTX['ctx'], fork_call,
                              _CTX['tcfg'])
    return res


def run_index(i):
    """Worker-side: generate plan i and execute it in a fork."""
    from sim.rng import run_seed
    eng = _CTX['engine']
    seed = run_seed(_CTX['batch_seed'], eng.ENGINE + _CTX['variant'],
                    _CTX['tier'], i)
    plan = eng.gen_plan(seed, i, _CTX['tier'], **_CTX['eng_kw'])
    res = full_run(plan)
    probe = 0
    if res['violations'] and hasattr(eng, 'has_amplifier') and \
            eng.has_amplifier(plan):
        # R2: a violation found in a history that contains line-level aborts
        # counts only if it persists with every abort removed
        plan2 = eng.strip_amplifiers(plan)
        res2 = full_run(plan2)
        sigs2 = {tuple(eng.signature(v)) for v in res2['violations']}
        keep = [v for v in res['violations']
                if tuple(eng.signature(v)) in sigs2]
        probe = len(res['violations']) - len(keep)
        if keep:
            plan, res = plan2, res2
        else:
            res['violations'] = []
    res['stats']['probe_abort_only'] = probe
    states = sorted(repr(s) for s in eng.abstract_states(res))
    out = {'index': i, 'seed': seed, 'digest': res['digest'],
           'schedule_digest': res.get('schedule_digest', res['digest']),
           'violations': res['violations'], 'known_hits': res['known_hits'],
           'stats': res['stats'], 'states': states,
           'nevents': len(res['events'])}
    if res['violations'] or i < 3:
        out['plan'] = plan
    if i < 2:
        out['sample'] = eng.describe(plan, res)
    return out


def digest_index(i):
    r = run_index(i)
    return [i, r['digest'], r['schedule_digest']]


def merge_stats(total, st):
    for k, v in st.items():
        if isinstance(v, dict):
            merge_stats(total.setdefault(k, {}), v)
        elif isinstance(v, (int, float)):
            total[k] = total.get(k, 0) + v
        elif isinstance(v, list):
            lst = total.setdefault(k, [])
            for x in v:
                if x not in lst and len(lst) < 500:
                    lst.append(x)


# ----------------------------------------------------------- minimisation
def minimise(plan, sig, eng, budget=150):
    """Greedy delta debugging: keep a smaller plan while a violation with
    the same signature persists."""
    best = plan
    tried = 0
    improved = True
    while improved and tried < budget:
        improved = False
        for cand in eng.shrink(best):
            tried += 1
            if tried > budget:
                break
            try:
                res = full_run(cand)
            except Exception:
                continue
            if any(eng.signature(v) == sig for v in res['violations']):
                best = cand
                improved = True
                break
    return best, tried


def repo_head(repo):
    try:
        return subprocess.run(['git', '-C', repo, 'rev-parse', 'HEAD'],
                              capture_output=True, text=True,
                              timeout=20).stdout.strip()
    except Exception:
        return 'unknown'


def repo_state(repo):
    """HEAD plus a hash of the uncommitted differences (the checks run
    whatever is in the working tree)."""
    import hashlib
    try:
        d = subprocess.run(['git', '-C', repo, 'diff', 'HEAD'],
                           capture_output=True, timeout=60).stdout
        return repo_head(repo) + ':' + hashlib.sha1(d).hexdigest()[:12]
    except Exception:
        return 'unknown'


def write_replay(prop, eng, plan, violation, repo, tried):
    os.makedirs(os.path.join(VERIF, 'replays'), exist_ok=True)
    body = {'property': prop, 'engine': eng.ENGINE, 'seed': plan['seed'],
            'plan': plan, 'violation': violation,
            'signature': list(eng.signature(violation)),
            'minimiser_executions': tried,
            'repo_head': repo_head(repo),
            'python': sys.version.split()[0],
            'hashseed': os.environ.get('PYTHONHASHSEED')}
    dig = hashlib.sha256(json.dumps(body['plan'], sort_keys=True)
                         .encode()).hexdigest()[:10]
    path = os.path.join(VERIF, 'replays', f'{prop}-{plan["seed"]}-{dig}.json')
    with open(path, 'w') as fh:
        json.dump(body, fh, indent=1)
    return path


def do_replay(prop, eng, path):
    with open(path) as fh:
        body = json.load(fh)
    res = full_run(body['plan'])
    want = tuple(body['signature'])
    print('\n'.join(eng.describe(body['plan'], res)))
    for v in res['violations']:
        if tuple(eng.signature(v)) == want:
            print(f'reproduced: {v["oracle"]}: {v["detail"]}')
            print(f'VIOLATION property={prop} replay={path}')
            return 1
    for k in res['known_hits']:
        print(f'KNOWN-FINDING: property={prop} {k["id"]} {k["detail"][:160]}')
    if res['violations']:
        v = res['violations'][0]
        print(f'different violation: {v["oracle"]}: {v["detail"]}')
        print(f'VIOLATION property={prop} replay={path}')
        return 1
    print('replay did not reproduce the recorded violation')
    return 0


# ------------------------------------------------------------------ main
def main():
    ap = argparse.ArgumentParser()
    ap.add_argument('property')
    ap.add_argument('--tier', default=os.environ.get('VERIF_TIER', 'quick'))
    ap.add_argument('--replay')
    ap.add_argument('--runs', type=int)
    ap.add_argument('--workers', type=int,
                    default=int(os.environ.get('VERIF_WORKERS', '0')) or None)
    ap.add_argument('--digests', help='internal: print digests of indices')
    ap.add_argument('--no-selftest', action='store_true')
    ap.add_argument('--no-evidence', action='store_true')
    args = ap.parse_args()
    _ensure_hashseed()
    repo = _setup_path()
    state0 = repo_state(repo)
    t0 = time.time()
    prop = args.property
    engname, eng_kw = ENGINES[prop]
    eng = importlib.import_module(f'sim.engines.{engname}')
    import regions
    if not os.path.realpath(regions.__file__).startswith(
            os.path.realpath(repo)):
        print(f'HARNESS-ERROR: regions imported from {regions.__file__}, '
              f'not from {repo}')
        return 2
    eng.preload()
    from sim import findings as F
    from sim.procs import run_batch
    from sim.rng import DEFAULT_SEED
    batch_seed = int(os.environ.get('VERIF_SEED', DEFAULT_SEED))
    tier = args.tier
    tcfg = eng.tiers(**eng_kw)[tier]
    _CTX.update(engine=eng, tier=tier, batch_seed=batch_seed, eng_kw=eng_kw,
                tcfg=tcfg,
                variant=eng_kw.get('mode', ''), limit=tcfg.get('limit', 120),
                ctx={'findings': [f for f in F.load()
                                  if f['property'] == prop],
                     'property': prop, **eng_kw})
    if hasattr(eng, 'prepare'):
        from sim.procs import fork_call
        eng.prepare(_CTX['ctx'], fork_call)
    if args.replay:
        return do_replay(prop, eng, args.replay)
    if args.digests:
        idx = [int(x) for x in args.digests.split(',')]
        out = run_batch(digest_index, idx, workers=args.workers, chunk=4)
        print('DIGESTS ' + json.dumps(out))
        return 0

    nruns = args.runs or tcfg['runs']
    results = run_batch(run_index, list(range(nruns)), workers=args.workers,
                        chunk=tcfg.get('chunk', 8))
    herr = [r for r in results if 'harness_error' in r]
    if herr:
        print(f'HARNESS-ERROR: {len(herr)} runs failed in the harness; first:')
        print(herr[0]['harness_error'][-3000:])
        return 2

    # ---- determinism self-test
    selftest = {'skipped': True}
    if not args.no_selftest:
        n = min(tcfg.get('selftest', 16), nruns)
        step = max(1, nruns // n)
        idx = list(range(0, nruns, step))[:n]
        again = run_batch(digest_index, idx, workers=1, chunk=len(idx))
        bad = [i for (i, d, _) in again if d != results[i]['digest']]

        def fresh(hashseed):
            cmd = [sys.executable, os.path.abspath(__file__), prop, '--tier',
                   tier, '--digests', ','.join(map(str, idx))]
            env = dict(os.environ, PYTHONHASHSEED=hashseed,
                       VERIF_SEED=str(batch_seed))
            proc = subprocess.run(cmd, env=env, capture_output=True,
                                  text=True,
                                  timeout=tcfg.get('limit', 120) * 4 + 600)
            for line in proc.stdout.splitlines():
                if line.startswith('DIGESTS '):
                    return json.loads(line[8:])
            print('HARNESS-ERROR: fresh-interpreter self-test produced no '
                  'digests:\n' + proc.stdout[-2000:] + proc.stderr[-2000:])
            return None
        # another hash seed in a fresh interpreter: the schedule (ops, slots,
        # faults fired, outcome classes) must be identical; full outcomes too
        # unless the engine declares a hash-seed dependent output (DS9 global
        # line order, observation O1 in DESIGN.md)
        other = fresh('1')
        if other is None:
            return 2
        sens = getattr(eng, 'HASHSEED_SENSITIVE', False)
        bad2 = [i for (i, d, sd) in other
                if (sd != results[i]['schedule_digest'] if sens
                    else d != results[i]['digest'])]
        bad3 = []
        if sens:
            same = fresh(os.environ.get('PYTHONHASHSEED', '0'))
            if same is None:
                return 2
            bad3 = [i for (i, d, sd) in same if d != results[i]['digest']]
        selftest = {'seeds': len(idx), 'rerun_same_process_tree_mismatch': bad,
                    'fresh_interpreter_other_hashseed_mismatch': bad2,
                    'fresh_interpreter_same_hashseed_mismatch': bad3,
                    'other_hashseed_compares': 'schedule digest' if sens
                    else 'full event-log digest',
                    'worker_counts': [args.workers or 16, 1]}
        if bad or bad2 or bad3:
            state1 = repo_state(repo)
            if state1 != state0:
                print(f'HARNESS-ERROR: the working tree of {repo} changed '
                      f'while the check was running ({state0} -> {state1}): '
                      'the batch and the fresh-interpreter self-test ran two '
                      'different programs; run the check again')
                return 2
            print(f'HARNESS-ERROR: nondeterministic runs: rerun={bad} '
                  f'fresh/hashseed1={bad2} fresh/same-hashseed={bad3}')
            return 2

    # ---- aggregate
    stats = {}
    states = set()
    nontrivial = set()
    known = {}
    viols = []
    events = 0
    for r in results:
        merge_stats(stats, r['stats'])
        states.update(r['states'])
        events += r['nevents']
        for k in r['known_hits']:
            known.setdefault(k['id'], []).append((r['index'], k))
        for v in r['violations']:
            viols.append((r, v))
    nontrivial = {s for s in states if eng.nontrivial(s)}

    exit_code = 0
    reported = []
    if viols:
        exit_code = 1
        seen = set()
        for r, v in viols:
            sig = tuple(eng.signature(v))
            if sig in seen:
                continue
            seen.add(sig)
            if len(seen) > tcfg.get('max_reports', 3):
                break
            plan = r.get('plan')
            if plan is None:
                from sim.rng import run_seed
                plan = eng.gen_plan(r['seed'], r['index'], tier, **eng_kw)
            small, tried = minimise(plan, sig, eng,
                                    tcfg.get('min_budget', 120))
            res = full_run(small)
            vv = [x for x in res['violations']
                  if tuple(eng.signature(x)) == sig]
            vshow = vv[0] if vv else v
            path = write_replay(prop, eng, small, vshow, repo, tried)
            # replay in a fresh interpreter must reproduce it exactly
            proc = subprocess.run(
                [sys.executable, os.path.abspath(__file__), prop,
                 '--replay', path], capture_output=True, text=True,
                env=dict(os.environ), timeout=600)
            confirmed = f'VIOLATION property={prop}' in proc.stdout
            print(f'--- violation of {prop} (run index {r["index"]}, seed '
                  f'{r["seed"]}; minimised with {tried} executions; fresh-'
                  f'process replay {"reproduced" if confirmed else "DID NOT reproduce"})')
            print('\n'.join(eng.describe(small, res)))
            print(f'oracle {vshow["oracle"]}: {vshow["detail"]}')
            print(f'replay: {os.path.join(VERIF, "check")} {prop} --replay {path}')
            print(f'VIOLATION property={prop} replay={path}')
            reported.append({'signature': list(sig), 'replay': path,
                             'confirmed': confirmed})
    for kid in sorted(known):
        hits = known[kid]
        k = hits[0][1]
        print(f'KNOWN-FINDING: property={prop} {kid} seen {len(hits)}x; e.g. '
              f'run {hits[0][0]}: {k["oracle"]}: {k["detail"][:200]}')

    wall = time.time() - t0
    if not args.no_evidence:
        samples = [r['sample'] for r in results if 'sample' in r]
        ev = {
            'property_id': prop, 'tier': tier, 'seed': batch_seed,
            'level': 'exploration',
            'coverage': {
                'evaluations': len(results),
                'distinct_nontrivial': len(nontrivial),
                'rule': eng.RULE if not hasattr(eng, 'rule') else
                eng.rule(**eng_kw),
                'samples': samples,
                'distinct_states_total': len(states),
                'logical_events': events,
                'runs_per_hour': round(len(results) / max(wall, 1e-9) * 3600),
                'simulated_time': 'n/a: nothing in regions reads a clock; '
                                  'logical time = event sequence number',
                'stats': stats,
                'determinism_selftest': selftest,
                'components': eng.COMPONENTS,
                'known_findings_seen': {k: len(v) for k, v in known.items()},
                'violations_reported': reported,
                'repo_head': repo_head(repo),
            },
            'assumptions': eng.ASSUMPTIONS,
            'wall_s': round(wall, 2),
            'violations': len({tuple(eng.signature(v)) for _, v in viols}),
        }
        os.makedirs(os.path.join(VERIF, 'evidence'), exist_ok=True)
        with open(os.path.join(VERIF, 'evidence', f'{prop}.json'), 'w') as fh:
            json.dump(ev, fh, indent=1, sort_keys=False)
    print(f'{prop}: {len(results)} runs, {events} events, '
          f'{len(nontrivial)} distinct non-trivial states, '
          f'{len(known)} known finding(s), '
          f'{len({tuple(eng.signature(v)) for _, v in viols})} violation '
          f'class(es), {wall:.1f}s')
    return exit_code


if __name__ == '__main__':
    try:
        code = main()
    except SystemExit:
        raise
    except BaseException:
        import traceback
        traceback.print_exc()
        print('HARNESS-ERROR: unhandled exception in the driver')
        code = 2
    sys.stdout.flush()
    os._exit(code)
