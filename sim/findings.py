"""Known findings: committed list, matched per failing step, never written at
run time.  An entry with status ``fixed`` matches nothing."""
import json
import os
import re

PATH = os.path.join(os.path.dirname(os.path.dirname(os.path.abspath(__file__))),
                    'known_findings.json')


def load(path=PATH):
    if not os.path.exists(path):
        return []
    with open(path) as fh:
        data = json.load(fh)
    return [f for f in data.get('findings', []) if f.get('status') == 'known']


def match_known(findings, sig):
    """Return the id of the known finding whose signature matches ``sig``."""
    for f in findings:
        s = f['signature']
        if f['property'] != sig.get('property'):
            continue
        ok = True
        for k, pat in s.items():
            val = sig.get(k)
            if val is None or not re.search(pat, str(val), re.S):
                ok = False
                break
        if ok:
            return f['id']
    return None
