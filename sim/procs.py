"""Process model: every run executes in its own fork of a pristine image.

``driver`` (has imported regions, never calls it)
   └─ worker  (ProcessPoolExecutor, fork): never calls regions either; only
        forks and relays results, so it stays a pristine image ("P")
        ├─ S   one fork per run: executes the history, checks invariants
        └─ R   one fork per reference query: evaluates ONE call, no history

A fork that exceeds its wall limit is killed and reported as a *harness
error* (never exit 0, never a VIOLATION).
"""
import faulthandler
import json
import multiprocessing
import os
import select
import signal
import sys
import time
import traceback
from concurrent.futures import ProcessPoolExecutor


class HarnessError(Exception):
    pass


def _child_main(fn, arg, wfd, limit):
    try:
        try:
            faulthandler.dump_traceback_later(limit + 5, exit=True)
        except Exception:
            pass
        try:
            out = {'ok': fn(arg)}
        except BaseException as exc:  # harness bug inside the child
            out = {'harness_error': ''.join(
                traceback.format_exception(type(exc), exc, exc.__traceback__))}
        try:
            data = json.dumps(out).encode()
        except BaseException as exc:  # a result that is not plain JSON
            data = json.dumps({'harness_error': ''.join(
                traceback.format_exception(type(exc), exc,
                                           exc.__traceback__))}).encode()
        with os.fdopen(wfd, 'wb') as w:
            w.write(data)
    finally:
        os._exit(0)


def fork_call(fn, arg, limit=120.0):
    """Run ``fn(arg)`` in a fork of the calling process; return its JSON
    result.  Raises HarnessError on timeout / crash / exception in ``fn``."""
    rfd, wfd = os.pipe()
    sys.stdout.flush()
    sys.stderr.flush()
    pid = os.fork()
    if pid == 0:
        os.close(rfd)
        _child_main(fn, arg, wfd, limit)
    os.close(wfd)
    chunks = []
    deadline = time.monotonic() + limit
    try:
        while True:
            left = deadline - time.monotonic()
            if left <= 0:
                os.kill(pid, signal.SIGKILL)
                os.waitpid(pid, 0)
                raise HarnessError(f'child exceeded wall limit of {limit}s')
            r, _, _ = select.select([rfd], [], [], min(left, 1.0))
            if r:
                b = os.read(rfd, 1 << 20)
                if not b:
                    break
                chunks.append(b)
    finally:
        os.close(rfd)
    _, status = os.waitpid(pid, 0)
    data = b''.join(chunks)
    if not data:
        raise HarnessError(f'child died without result (status {status})')
    out = json.loads(data)
    if 'harness_error' in out:
        raise HarnessError(out['harness_error'])
    return out['ok']


# ----------------------------------------------------------- batch driver
def _worker_task(args):
    fn, items, limit = args
    out = []
    for item in items:
        try:
            out.append(fn(item))
        except HarnessError:
            # a fork that hit its wall limit on an overloaded machine is not
            # a property of the run: execute the (deterministic) item once
            # more before reporting a harness error
            try:
                out.append(fn(item))
            except HarnessError as exc:
                out.append({'harness_error': str(exc),
                            'item': repr(item)[:200]})
    return out


def run_batch(fn, items, workers=None, chunk=8, limit=600.0):
    """Map ``fn`` over ``items`` on a fork pool, keeping order.  ``fn`` runs in
    a worker and is expected to use ``fork_call`` for anything that touches
    the library.  Results come back in input order, independent of the
    number of workers."""
    workers = workers or min(16, os.cpu_count() or 1)
    chunks = [items[i:i + chunk] for i in range(0, len(items), chunk)]
    if workers <= 1 or len(chunks) <= 1:
        res = []
        for c in chunks:
            res.extend(_worker_task((fn, c, limit)))
        return res
    ctx = multiprocessing.get_context('fork')
    res = [None] * len(chunks)
    with ProcessPoolExecutor(max_workers=workers, mp_context=ctx) as ex:
        futs = {ex.submit(_worker_task, (fn, c, limit)): i
                for i, c in enumerate(chunks)}
        for fut, i in futs.items():
            try:
                res[i] = fut.result(timeout=limit * 4)
            except Exception as exc:  # worker died
                res[i] = [{'harness_error': f'worker failed: {exc!r}'}
                          for _ in chunks[i]]
    return [r for c in res for r in c]
