"""Canonical value-level fingerprints of library objects.

``canon(obj)`` returns a nested structure of lists/strs/ints that captures the
*value* of an object bit-for-bit (IEEE bits of floats, dtype/shape/bytes of
arrays, order of dict items) but none of its incidental representation
(astropy caches, memory addresses).  ``fp(obj)`` hashes it.  ``diff(a, b)``
returns the path of the first difference of two canonical forms, for reports.
"""
import hashlib
import re
import struct
import types

import numpy as np

_ADDR = re.compile(r'0x[0-9a-fA-F]+')


def _f(x):
    return struct.pack('>d', float(x)).hex()


NATIVE = False      # True: normalise byte order (value-level comparison)
LOOSE = False       # True: value-level comparison of two DIFFERENT objects
#                     (a copy and its original): the order of dict items,
#                     array dtype / writeable flag / byte order and the
#                     Quantity subclass are representation, not value


def _arr(a):
    a = np.asarray(a)
    if LOOSE and a.dtype.kind in 'iufb':
        f = a.astype('float64')
        return ['ndv', list(a.shape), np.ascontiguousarray(f).tobytes().hex()
                if f.size <= 8 else
                'sha1:' + hashlib.sha1(np.ascontiguousarray(f).tobytes())
                .hexdigest()]
    if NATIVE and a.dtype.byteorder not in ('=', '|'):
        a = a.astype(a.dtype.newbyteorder('='))
    if a.dtype == object:
        return ['ndo', list(a.shape), [canon(x) for x in a.ravel().tolist()]]
    data = np.ascontiguousarray(a).tobytes()
    if len(data) > 64:
        data = 'sha1:' + hashlib.sha1(data).hexdigest()
    else:
        data = data.hex()
    return ['nd', a.dtype.str, list(a.shape), data,
            'rw' if a.flags.writeable else 'ro']


def _time(t):
    try:
        return ['time', t.scale, _arr(t.jd1), _arr(t.jd2)]
    except Exception:  # pragma: no cover
        return ['time?', str(t)]


def _skycoord(sc):
    frame = sc.frame
    attrs = []
    for name in sorted(frame.frame_attributes):
        attrs.append([name, canon(getattr(frame, name, None))])
    out = ['sky', frame.name, attrs]
    if frame.has_data:
        data = frame.data
        comps = []
        for cname in data.components:
            comp = getattr(data, cname)
            comps.append([cname, canon(comp),
                          canon(getattr(comp, 'wrap_angle', None))])
        out.append([type(data).__name__, comps])
        diffs = getattr(data, 'differentials', None) or {}
        out.append([[k, type(diffs[k]).__name__,
                     [[c, canon(getattr(diffs[k], c))]
                      for c in diffs[k].components]]
                    for k in sorted(diffs.keys())])
        out.append(getattr(frame.representation_type, '__name__', None))
    return out


def _wcs(w):
    ww = w.wcs
    fields = []
    for name in ('ctype', 'crval', 'crpix', 'cdelt', 'cunit', 'naxis',
                 'lonpole', 'latpole', 'radesys', 'equinox'):
        try:
            v = getattr(ww, name)
        except Exception:
            v = None
        if name == 'cunit':
            v = [str(x) for x in v]
        elif name == 'ctype':
            v = list(v)
        fields.append([name, canon(v)])
    try:
        fields.append(['pc', canon(np.array(ww.get_pc()))])
    except Exception:
        fields.append(['pc', None])
    fields.append(['pixel_shape', canon(w.pixel_shape)])
    for name in ('pixel_bounds', 'array_shape'):
        try:
            fields.append([name, canon(getattr(w, name))])
        except Exception:
            fields.append([name, None])
    try:
        fields.append(['cd', canon(np.array(ww.cd)) if ww.has_cd() else None])
    except Exception:
        fields.append(['cd', None])
    sip = getattr(w, 'sip', None)
    fields.append(['sip', None if sip is None else
                   [canon(getattr(sip, n, None))
                    for n in ('a', 'b', 'ap', 'bp', 'crpix')]])
    for name in ('cpdis1', 'cpdis2', 'det2im1', 'det2im2'):
        fields.append([name, getattr(w, name, None) is not None])
    try:
        # everything wcslib knows (PV, PS, CROTA, dates, spectral keywords
        # ...), as the header it would write
        fields.append(['header', repr(w.to_header(relax=True))])
    except Exception as exc:
        fields.append(['header', type(exc).__name__])
    return ['wcs', fields]


def _artist(a):
    import matplotlib.lines as mlines
    import matplotlib.patches as mpatches
    import matplotlib.text as mtext
    out = ['artist', type(a).__name__]
    if isinstance(a, mpatches.Patch):
        path = a.get_transform().transform_path(a.get_path())
        out.append(['verts', _arr(np.asarray(path.vertices, dtype=float))])
        out.append(['codes', None if path.codes is None else
                    _arr(np.asarray(path.codes))])
        for name in ('edgecolor', 'facecolor', 'linewidth', 'linestyle',
                     'fill', 'alpha', 'label', 'hatch', 'zorder', 'visible',
                     'capstyle', 'joinstyle', 'clip_on'):
            out.append([name, canon(getattr(a, 'get_' + name)())])
        out.append(['dashes', canon(getattr(a, '_dash_pattern', None))])
    elif isinstance(a, mlines.Line2D):
        out.append(['x', _arr(np.asarray(a.get_xdata(), dtype=float))])
        out.append(['y', _arr(np.asarray(a.get_ydata(), dtype=float))])
        for name in ('marker', 'markersize', 'markeredgecolor',
                     'markerfacecolor', 'markeredgewidth', 'fillstyle',
                     'color', 'linewidth', 'linestyle', 'alpha', 'label',
                     'zorder', 'visible', 'drawstyle', 'dash_capstyle',
                     'clip_on'):
            out.append([name, canon(getattr(a, 'get_' + name)())])
    elif isinstance(a, mtext.Text):
        out.append(['pos', canon(tuple(float(v) for v in a.get_position()))])
        for name in ('text', 'rotation', 'color', 'fontsize', 'fontfamily',
                     'fontstyle', 'fontweight', 'ha', 'va', 'alpha',
                     'zorder', 'visible', 'label', 'usetex', 'rotation_mode',
                     'clip_on'):
            out.append([name, canon(getattr(a, 'get_' + name)())])
    else:
        out.append(['repr', _ADDR.sub('0x', repr(a))])
    return out


def _table(t):
    cols = []
    for name in t.colnames:
        col = t[name]
        unit = getattr(col, 'unit', None)
        val = getattr(col, 'value', None)
        if val is None:
            val = np.asarray(col)
        info = getattr(col, 'info', None)
        mask = getattr(col, 'mask', None)
        cols.append([name, str(unit) if unit is not None else None,
                     _arr(np.asarray(val)), type(col).__name__,
                     None if mask is None or mask is np.ma.nomask
                     else _arr(np.asarray(mask)),
                     repr(getattr(info, 'format', None)),
                     repr(getattr(info, 'description', None)),
                     repr(getattr(info, 'meta', None))[:200]])
    try:
        idx = [repr(i)[:80] for i in t.indices]
    except Exception:
        idx = None
    return ['table', type(t).__name__, cols, canon(dict(t.meta)), idx]


def canon(obj, _depth=0):
    """Canonical nested-list form of ``obj`` (see module docstring)."""
    if _depth > 40:
        return ['deep']
    d = _depth + 1
    if LOOSE and isinstance(obj, (bool, int, float, np.integer, np.floating,
                                  np.bool_)):
        return ['num', _f(obj)]
    if obj is None or isinstance(obj, (bool, int, str, bytes)):
        return ['py', type(obj).__name__, repr(obj)]
    if isinstance(obj, float):
        return ['f', type(obj).__name__, _f(obj)]
    if isinstance(obj, complex):
        return ['c', repr(obj)]
    if isinstance(obj, np.generic):
        return ['npg', obj.dtype.str, obj.tobytes().hex()]

    # astropy
    from astropy.coordinates import BaseCoordinateFrame, SkyCoord
    from astropy.table import Table
    from astropy.time import Time
    from astropy.units import Quantity, UnitBase
    if isinstance(obj, Quantity):
        return ['q', 'Quantity' if LOOSE else type(obj).__name__,
                obj.unit.to_string(),
                _arr(obj.value) if np.ndim(obj.value) else
                ['f0', np.asarray(obj.value).dtype.str,
                 np.asarray(obj.value).tobytes().hex()]]
    if isinstance(obj, np.ma.MaskedArray):
        return ['ma', _arr(obj.data), _arr(np.ma.getmaskarray(obj)),
                repr(obj.fill_value), bool(obj.hardmask)]
    if isinstance(obj, np.ndarray):
        return _arr(obj)
    if isinstance(obj, SkyCoord):
        return _skycoord(obj)
    if isinstance(obj, BaseCoordinateFrame):
        return ['frame', _skycoord(SkyCoord(obj)) if obj.has_data
                else [obj.name, [[n, canon(getattr(obj, n, None), d)]
                                 for n in sorted(obj.frame_attributes)]]]
    if isinstance(obj, Time):
        return _time(obj)
    if isinstance(obj, UnitBase):
        return ['unit', obj.to_string()]
    if isinstance(obj, Table):
        return _table(obj)
    from astropy.io.fits import Header
    if isinstance(obj, Header):
        return ['header', [[c.keyword, canon(c.value, d), c.comment]
                           for c in obj.cards]]

    # regions
    from regions import (PixCoord, Region, RegionBoundingBox, RegionMask,
                         Regions)
    if isinstance(obj, PixCoord):
        return ['pix', canon(obj.x, d), canon(obj.y, d)]
    if isinstance(obj, dict):
        items = [[canon(k, d), canon(v, d)] for k, v in obj.items()]
        if LOOSE:
            items.sort(key=repr)
        return ['dict', type(obj).__name__, items]
    if isinstance(obj, (list, tuple)):
        return [type(obj).__name__, [canon(x, d) for x in obj]]
    if isinstance(obj, (set, frozenset)):
        return [type(obj).__name__, sorted(repr(canon(x, d)) for x in obj)]
    if isinstance(obj, Region):
        # the *value* of a region is what the properties name: class,
        # shape parameters, meta, visual - read through the public
        # attributes.  Everything else an instance may carry (private
        # caches, lazily computed properties stored under a public name,
        # derived attributes, where and how the values are stored) is
        # representation and is ignored.
        items = []
        for k in list(getattr(obj, '_params', ()) or ()) + ['meta', 'visual']:
            try:
                items.append([k, canon(getattr(obj, k), d)])
            except AttributeError:
                items.append([k, ['missing']])
        return ['obj', type(obj).__name__, items]
    if isinstance(obj, (RegionMask, RegionBoundingBox)):
        names = ('data', 'bbox') if isinstance(obj, RegionMask) \
            else ('ixmin', 'ixmax', 'iymin', 'iymax')
        items = []
        for k in names:
            try:
                items.append([k, canon(getattr(obj, k), d)])
            except AttributeError:
                items.append([k, ['missing']])
        return ['obj', type(obj).__name__, items]
    if isinstance(obj, Regions):
        return ['regions', type(obj).__name__, canon(obj.regions, d)]
    if isinstance(obj, BaseException):
        return ['exc', type(obj).__name__, _ADDR.sub('0x', str(obj))[:400]]
    if isinstance(obj, (types.FunctionType, types.BuiltinFunctionType,
                        types.MethodType)):
        return ['fn', getattr(obj, '__module__', '') or '',
                getattr(obj, '__qualname__', repr(obj))]
    if isinstance(obj, slice):
        return ['slice', repr(obj)]

    # wcs (and the FaultyWCS proxy, which exposes ``_real``)
    real = getattr(obj, '_verif_real', None)
    if real is not None:
        return ['proxy', canon(real, d)]
    try:
        from astropy.wcs import WCS
        if isinstance(obj, WCS):
            return _wcs(obj)
    except Exception:  # pragma: no cover
        pass
    mod = type(obj).__module__ or ''
    if mod.startswith('matplotlib'):
        try:
            from matplotlib.artist import Artist
            from matplotlib.path import Path
            if isinstance(obj, Artist):
                return _artist(obj)
            if isinstance(obj, Path):
                return ['path', _arr(obj.vertices), None if obj.codes is None
                        else _arr(obj.codes)]
        except Exception:  # pragma: no cover
            pass
    return ['repr', type(obj).__name__, _ADDR.sub('0x', repr(obj))[:400]]


def canon_loose(obj):
    """Canonical form for comparing a copy with its original (see LOOSE)."""
    global LOOSE, NATIVE
    old = (LOOSE, NATIVE)
    LOOSE = NATIVE = True
    try:
        return canon(obj)
    finally:
        LOOSE, NATIVE = old


def canon_value(obj):
    """Canonical form that ignores array byte order (FITS is big-endian)."""
    global NATIVE
    old, NATIVE = NATIVE, True
    try:
        return canon(obj)
    finally:
        NATIVE = old


def fp(obj):
    return hashlib.sha256(repr(canon(obj)).encode()).hexdigest()[:24]


def fpc(c):
    """Fingerprint of an already canonical form."""
    return hashlib.sha256(repr(c).encode()).hexdigest()[:24]


def diff(a, b, path=''):
    """Path and values of the first difference between two canon forms."""
    if type(a) is not type(b):
        return f'{path}: {_short(a)} != {_short(b)}'
    if isinstance(a, list):
        if len(a) != len(b):
            return f'{path}: len {len(a)} != {len(b)}: {_short(a)} != {_short(b)}'
        for i, (x, y) in enumerate(zip(a, b)):
            r = diff(x, y, f'{path}/{_label(a, i)}')
            if r:
                return r
        return None
    if a != b:
        return f'{path}: {_short(a)} != {_short(b)}'
    return None


def _label(lst, i):
    # use the key name for [key, value] pairs
    x = lst[i]
    if (isinstance(x, list) and len(x) == 2 and isinstance(x[0], str)):
        return x[0]
    return str(i)


def _short(x):
    s = repr(x)
    return s if len(s) < 160 else s[:157] + '...'
