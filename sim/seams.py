"""Seams: everything ambient that the code under test reads implicitly.

All interposition is done from the harness by patching module attributes for
the duration of one call; nothing in /repo is touched.
"""
import builtins
import contextlib
import io
import os
import re
import warnings


class FsSeam:
    """Intercept ``open`` and a few ``os`` calls for paths below ``root``.

    * models the ambient locale encoding: a text-mode ``open`` without an
      explicit ``encoding=`` gets the run's modelled encoding;
    * records an ordered trace ``(seq, op, relpath, detail)`` for replay files
      and diagnostics (never used as an oracle).
    """

    def __init__(self, root, encoding='utf-8'):
        self.root = os.path.realpath(root)
        self.encoding = encoding
        self.trace = []
        self._saved = {}

    def _rel(self, path):
        try:
            p = os.fspath(path)
        except TypeError:
            return None
        if isinstance(p, bytes):
            try:
                p = os.fsdecode(p)
            except Exception:
                return None
        if '\x00' in p:
            return None
        ap = os.path.normpath(os.path.join(os.getcwd(), p))
        # do not resolve the last component (it may be a symlink on purpose)
        head, tail = os.path.split(ap)
        try:
            head = os.path.realpath(head)
        except OSError:
            pass
        ap = os.path.join(head, tail)
        if ap == self.root or ap.startswith(self.root + os.sep):
            return os.path.relpath(ap, self.root)
        return None

    def _log(self, op, rel, detail=''):
        self.trace.append([len(self.trace), op, rel, detail])

    def __enter__(self):
        real_open = builtins.open
        self._saved['open'] = real_open
        self._saved['io.open'] = io.open
        seam = self

        def open_(file, mode='r', buffering=-1, encoding=None, errors=None,
                  newline=None, closefd=True, opener=None):
            rel = seam._rel(file) if not isinstance(file, int) else None
            if rel is not None:
                seam._log('open', rel, mode)
                if 'b' not in mode and encoding is None:
                    encoding = seam.encoding
            return real_open(file, mode, buffering, encoding, errors,
                             newline, closefd, opener)

        builtins.open = open_
        io.open = open_

        def wrap(mod, name, nargs=1):
            real = getattr(mod, name)
            self._saved[(mod, name)] = real

            def f(*a, **k):
                rels = [seam._rel(x) for x in a[:nargs]]
                if any(r is not None for r in rels):
                    seam._log(name, '|'.join(str(r) for r in rels))
                return real(*a, **k)
            f.__name__ = name
            setattr(mod, name, f)

        for name in ('remove', 'unlink', 'rmdir', 'truncate', 'mkdir'):
            wrap(os, name)
        for name in ('rename', 'replace', 'symlink', 'link'):
            wrap(os, name, 2)
        for name in ('exists', 'lexists', 'getsize'):
            wrap(os.path, name)
        return self

    def __exit__(self, *exc):
        builtins.open = self._saved.pop('open')
        io.open = self._saved.pop('io.open')
        for (mod, name), real in self._saved.items():
            setattr(mod, name, real)
        self._saved.clear()
        return False


_ADDR = re.compile(r'0x[0-9a-fA-F]+')
_RUNDIR = re.compile(r'/\S*regions-verif/[^/\s\'"]+')


def _clean_text(s):
    """Message text without memory addresses and run-specific paths."""
    return _RUNDIR.sub('<run>', _ADDR.sub('0x', s))


def _filter_canary(mode, wlist, category):
    """Is a library warning still treated the way the run configured it?

    Called at the end of a call, *before* the per-call filter context is
    restored (the restoration would hide a filter that the call installed
    process-wide and did not remove).  Functional rather than structural: a
    canary warning is issued as if from a ``regions.*`` module and must be
    recorded (``default``) or raised (``error``); third-party code adding
    unrelated filters therefore cannot produce an alarm."""
    n0 = len(wlist)
    try:
        warnings.warn_explicit('verif canary', category,
                               '/verif-canary/regions/canary.py', 1,
                               module='regions.verif_canary', registry={})
        got = 'recorded' if len(wlist) == n0 + 1 else 'suppressed'
    except category:
        got = 'raised'
    except Exception as exc:      # pragma: no cover
        got = f'answered with {type(exc).__name__}'
    del wlist[n0:]
    want = 'raised' if mode == 'error' else 'recorded'
    if got == want:
        return None
    return (f'after the call a library warning is {got} (the process was '
            f'configured so that it is {want})')


@contextlib.contextmanager
def warnings_mode(mode, record):
    """Run a call under the run's warnings configuration.

    ``default``: every warning is recorded (``always``), none is an error; the
    per-location "once" registry of Python is thereby neutralised.
    ``error``: additionally, the library's own ``AstropyUserWarning``s are
    exceptions - this repository's own pytest configuration (``-W error``),
    scoped to warnings issued from ``regions.*`` modules so that third-party
    warnings can never produce an alarm.
    """
    from astropy.utils.exceptions import AstropyUserWarning
    with warnings.catch_warnings(record=True) as wlist:
        warnings.simplefilter('always')
        if mode == 'error':
            warnings.filterwarnings('error', category=AstropyUserWarning,
                                    module=r'regions\.')
        try:
            yield wlist
        finally:
            leak = _filter_canary(mode, wlist, AstropyUserWarning)
            if leak:
                record.append(['<warning filters>', leak])
            for w in wlist:
                fn = (w.filename or '')
                if '/regions/' in fn:
                    record.append([w.category.__name__,
                                   _clean_text(str(w.message))[:200]])
