"""Build library objects from JSON recipes.

A recipe is plain JSON, so that plans (= histories) are self-contained replay
files: no pickles, no references to live objects.  ``build(recipe)`` returns a
*fresh* object every time it is called (fresh arrays, fresh dicts, fresh
lists), so two builds never alias each other.
"""
import operator

import numpy as np

_OPS = {'and_': operator.and_, 'or_': operator.or_, 'xor': operator.xor}


def custom_and(a, b):
    """A caller-supplied compound operator (any callable is allowed)."""
    return np.logical_and(a, b)


class Unbuildable(Exception):
    """The recipe describes an object whose *construction* fails."""


def is_recipe(x):
    return isinstance(x, dict) and 't' in x


def build(r):
    """Build the object described by recipe ``r``."""
    if not is_recipe(r):
        if isinstance(r, list):
            return [build(x) for x in r]
        if isinstance(r, dict):
            return {k: build(v) for k, v in r.items()}
        return r
    t = r['t']
    if t == 'lit':
        return r['v']
    if t == 'nan':
        return float('nan')
    if t == 'inf':
        return float('inf')
    if t == 'ninf':
        return float('-inf')
    if t == 'npf':          # numpy scalar
        return np.dtype(r.get('dtype', 'float64')).type(build(r['v']))
    if t == 'arr':
        return np.array(build(r['v']), dtype=r.get('dtype', 'float64'))
    if t == 'tuple':
        return tuple(build(x) for x in r['v'])
    if t == 'list':
        return [build(x) for x in r['v']]
    if t == 'dict':
        return {k: build(v) for k, v in r['v']}
    if t == 'object':
        return object()
    if t == 'callable':
        return {'custom_and': custom_and}[r['v']]
    if t == 'q':
        import astropy.units as u
        return u.Quantity(build(r['v']), u.Unit(r['u']))
    if t == 'angle':
        from astropy.coordinates import Angle
        return Angle(build(r['v']), r['u'])
    if t == 'pix':
        from regions import PixCoord
        return PixCoord(_num(r['x']), _num(r['y']))
    if t == 'sky':
        return _sky(r)
    if t == 'meta':
        from regions import RegionMeta
        return RegionMeta({k: build(v) for k, v in r['v']})
    if t == 'visual':
        from regions import RegionVisual
        return RegionVisual({k: build(v) for k, v in r['v']})
    if t == 'region':
        import regions
        cls = getattr(regions, r['cls'])
        kw = {k: build(v) for k, v in r['params'].items()}
        if 'meta' in r:
            kw['meta'] = build(r['meta'])
        if 'visual' in r:
            kw['visual'] = build(r['visual'])
        obj = cls(**kw)
        # a region that WAS valid and whose public data were then changed
        # by the application ('setpub': attribute of a parameter object;
        # 'poke': the stored parameter itself)
        for par, attr, val in r.get('setpub', []):
            setattr(getattr(obj, par), attr, build(val))
        for par, val in r.get('poke', []):
            obj.__dict__[par] = build(val)
        return obj
    if t == 'compound':
        import regions
        cls = getattr(regions, r['cls'])
        kw = dict(region1=build(r['r1']), region2=build(r['r2']),
                  operator=_OPS[r['op']] if isinstance(r['op'], str)
                  and r['op'] in _OPS else build(r['op']))
        if 'meta' in r:
            kw['meta'] = build(r['meta'])
        if 'visual' in r:
            kw['visual'] = build(r['visual'])
        return cls(**kw)
    if t == 'binop':        # region1 <op> region2 through the public operators
        a, b = build(r['r1']), build(r['r2'])
        return _OPS[r['op']](a, b)
    if t == 'regions':
        from regions import Regions
        items = [build(x) for x in r['v']]
        return Regions(tuple(items) if r.get('as') == 'tuple' else items)
    if t == 'wcs':
        return _wcs(r)
    if t == 'image':
        return _image(r)
    if t == 'bbox':
        from regions import RegionBoundingBox
        return RegionBoundingBox(*[build(x) for x in r['v']])
    if t == 'slice':
        return slice(*r['v'])
    if t == 'header':
        from astropy.io import fits
        return fits.Header([(k, build(v)) for k, v in r['v']])
    if t == 'fitstable':
        return _fitstable(r)
    raise ValueError(f'unknown recipe type {t!r}')


def _num(v):
    if isinstance(v, list):
        return np.array(v, dtype=float)
    if is_recipe(v):
        return build(v)
    return v


def _sky(r):
    import astropy.units as u
    from astropy.coordinates import SkyCoord
    kw = {}
    if r.get('equinox'):
        kw['equinox'] = r['equinox']
    if r.get('obstime'):
        kw['obstime'] = r['obstime']
    lon, lat = r['lon'], r['lat']
    if isinstance(lon, list):
        lon = np.array(lon, dtype=float)
        lat = np.array(lat, dtype=float)
    if r.get('distance'):
        kw['distance'] = r['distance'] * u.kpc
    sc = SkyCoord(lon * u.Unit(r.get('unit', 'deg')),
                  lat * u.Unit(r.get('unit', 'deg')),
                  frame=r.get('frame', 'icrs'), **kw)
    if r.get('representation'):
        sc.representation_type = r['representation']
    return sc


def _wcs(r):
    from astropy.wcs import WCS
    w = WCS(naxis=r.get('naxis', 2))
    w.wcs.ctype = r['ctype']
    w.wcs.crval = r['crval']
    w.wcs.crpix = r['crpix']
    w.wcs.cdelt = r['cdelt']
    if r.get('cunit'):
        w.wcs.cunit = r['cunit']
    rot = r.get('rot', 0.0)
    if rot and r.get('naxis', 2) == 2:
        c, s = np.cos(np.deg2rad(rot)), np.sin(np.deg2rad(rot))
        w.wcs.pc = [[c, -s], [s, c]]
    if r.get('radesys'):
        w.wcs.radesys = r['radesys']
    if r.get('equinox'):
        w.wcs.equinox = r['equinox']
    if r.get('sip'):
        from astropy.wcs import Sip
        a = np.zeros((3, 3))
        b = np.zeros((3, 3))
        a[0, 2], a[2, 0], a[1, 1] = 2e-5, -1e-5, 3e-6
        b[0, 2], b[2, 0], b[1, 1] = -2e-5, 1e-5, 1e-6
        w.sip = Sip(a, b, None, None, list(r['crpix']))
    w.wcs.set()
    if r.get('pixel_shape'):
        w.pixel_shape = tuple(r['pixel_shape'])
    if r.get('pixel_bounds'):
        w.pixel_bounds = [tuple(x) for x in r['pixel_bounds']]
    return w


def _image(r):
    ny, nx = r['shape']
    rs = np.random.RandomState(r.get('seed', 0))   # literal, recipe-owned seed
    kind = r.get('kind', 'float')
    if kind == 'int':
        data = rs.randint(0, 100, size=(ny, nx)).astype(r.get('dtype', 'int64'))
    else:
        data = rs.uniform(-1, 10, size=(ny, nx)).astype(r.get('dtype', 'float64'))
    sp = r.get('special')
    if sp == 'nan':
        data[::7, ::5] = np.nan
        data[3, 4] = np.inf
        data[5, 6] = -np.inf
    elif sp == 'masked':
        data = np.ma.MaskedArray(data, mask=(data > 8))
    elif sp == 'bigendian':
        data = data.astype('>f8')
    elif sp == 'fortran':
        data = np.asfortranarray(data)
    elif sp == 'strided':
        big = rs.uniform(-1, 10, size=(2 * ny, 2 * nx))
        data = big[::2, ::2]
    elif sp == 'readonly':
        data.setflags(write=False)
    if r.get('unit'):
        import astropy.units as u
        data = data * u.Unit(r['unit'])
    return data


def _fitstable(r):
    from astropy.table import QTable
    import astropy.units as u
    t = QTable()
    for name, values, unit in r['cols']:
        v = values
        if unit:
            t[name] = np.array(v) * u.Unit(unit)
        else:
            t[name] = v
    if r.get('plain'):
        from astropy.table import Table
        t = Table(t)          # unit-carrying Columns instead of Quantities
    return t


# ---- additional recipe types used by the history engine
def build_ext(r):
    """Recipes whose construction calls the library under test (derived
    inputs with a fixed, literal derivation)."""
    t = r['t']
    if t == 'datafile':
        import os
        import regions
        p = os.path.join(os.path.dirname(regions.__file__), r['path'])
        with open(p, 'rb') as fh:
            return fh.read().decode('utf-8')
    if t == 'serialized':
        from regions import Regions
        regs = Regions([build(x) for x in r['regions']])
        return regs.serialize(format=r['fmt'], **r.get('kw', {}))
    if t == 'mask':
        return build(r['region']).to_mask(mode=r.get('mode', 'center'))
    if t == 'regions_dup':
        from regions import Regions
        regs = [build(x) for x in r['v']]
        return Regions(regs + [regs[0]])
    if t == 'table_variant':
        # a FITS region table as other tools write it: other letter case of
        # the column names, an extra column, another column order
        from astropy.table import QTable
        base = build({'t': 'serialized', 'fmt': 'fits',
                      'regions': r['regions']})
        names = list(base.colnames)
        how = r['variant']
        out = QTable()
        if how == 'reversed':
            names = names[::-1]
        for n in names:
            new = {'lower': n.lower(), 'mixed': n.capitalize()}.get(how, n)
            out[new] = base[n]
        if how == 'extra':
            out['NOTE'] = ['x'] * len(base)
        if how == 'other_shapes':
            # the same rows under the shape names other tools use: an
            # unrotated "box" that nevertheless carries a ROTANG value, ...
            names_map = {'rotbox': 'box', 'ROTBOX': 'BOX'}
            out['SHAPE'] = [names_map.get(str(x).strip(), str(x).strip())
                            for x in base['SHAPE']]
        out.meta.update(base.meta)
        return out
    raise ValueError(t)


_build_core = build


def build(r):  # noqa: F811
    if is_recipe(r) and r['t'] in ('datafile', 'serialized', 'mask',
                                   'table_variant', 'regions_dup'):
        return build_ext(r)
    return _build_core(r)
