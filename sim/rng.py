"""Seeded randomness: one integer decides everything.

Every random choice of the harness is drawn from a ``Stream``: a
``random.Random`` whose state is derived with SHA-256 from the batch seed,
the run index and a *stream name*, so that adding a draw to one stream never
shifts the draws of another one.  Nothing else in the harness may call
``random``, ``os.urandom``, ``time`` or ``id`` for a decision.
"""
import hashlib
import random

DEFAULT_SEED = 20260926


def derive(*parts):
    """Derive a 64-bit integer from the given parts (ints/strs)."""
    h = hashlib.sha256('\x1f'.join(str(p) for p in parts).encode()).digest()
    return int.from_bytes(h[:8], 'big')


def run_seed(batch_seed, engine, tier, index):
    return derive('run', batch_seed, engine, tier, index)


class Stream(random.Random):
    """A named sub-stream of a run's randomness."""

    def __init__(self, seed, name):
        super().__init__(derive('stream', seed, name))
        self.name = name

    # convenience helpers (all built on the base generator => deterministic)
    def chance(self, p):
        return self.random() < p

    def pick(self, seq):
        return seq[self.randrange(len(seq))]

    def weighted(self, pairs):
        """pairs: list of (item, weight)."""
        total = sum(w for _, w in pairs)
        x = self.random() * total
        acc = 0.0
        for item, w in pairs:
            acc += w
            if x < acc:
                return item
        return pairs[-1][0]

    def subset(self, seq, pmin=1):
        out = [s for s in seq if self.random() < 0.5]
        while len(out) < min(pmin, len(seq)):
            c = self.pick(seq)
            if c not in out:
                out.append(c)
        return out
