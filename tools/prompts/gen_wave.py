# Generates the prompt files of one wave of seeded changes (see DESIGN 10.4): property text + ideas already tried + a flavour per agent.
# The FL table at the end names the wave; prompts are written to /tmp/prompts/<name>.txt (mkdir first).
import json, sys
props = {json.loads(l)['id']: json.loads(l) for l in open('/verif/properties.jsonl')}
TRIED = {
 'C13': """   - DS9/CRTF/FITS serialisers converting or halving a Quantity/array of the caller's region in place (incl. non-degree units, int/float32 vertex arrays, Angle wrap)
   - serialisers popping/setdefault-ing keys in the caller's meta/visual; tags normalised through a shallow copy
   - module-level template iterators / sets / default headers / memo tables left in a changed state (by failing parses, by annuli, by fmt/coordsys options, by user headers)
   - to_sky/to_pixel/rotate/combine writing into the source region's or operand's meta/visual or angle, or into the caller's angle argument
   - RegionMask caches written by get_values/multiply; cutout/multiply writing into the image; images sanitised in place
   - format identification memoised per path; id()-keyed parse caches
   - Regions-level serialisation replacing elements of the caller's list; parse renaming columns of the caller's table
   - hidden flags set on the caller's WCS; contains() recentring the caller's coordinate arrays
   - class-level lists growing on every as_artist; repr() changing numpy print options; leaked warnings filters
   - FITS parser using += on a shared default-argument Quantity
   - plot() storing kwargs into the region""",
 'C14': """   - opening the output file before serialising (truncation on failure); explicit encodings on open
   - os.path.exists instead of lexists; guards skipped for zero-length files, pathlib/bytes/PathLike paths, "~" paths, compressed names, empty lists
   - removing a symlink/old file before the write can fail; error-path cleanup removing a pre-existing destination (also keyed on exception class)
   - no O_TRUNC when overwriting; exclusive-create instead of the up-front check
   - content sniffing that no longer handles gzip/bytes; memoised identification; dropped extensions; wrong HDU; latin-1 decoding in the reader
   - write silently skipped when every region is skipped; write() not forwarding an option
   - overwrite compared with `is False`/`is True`; two-phase FITS writes; warnings issued after the file was written
   - relative symlinks resolved against the cwd; registry removing destinations before dispatch
   - per-object caches of serialised text; module-level default header polluted""",
 'C16': """   - copy()/deepcopy sharing meta, visual, tag lists, scalar Quantities, vertex arrays (x or y), PixCoord objects
   - compound regions dropping/re-linking meta/visual on copy or construction; copy(**changes) ignoring a field (meta={}, operator)
   - __eq__ skipping a field (visual, later params), comparing keys of one side only, pairing values by insertion order, merging meta and visual, treating None like absent, folding case/whitespace
   - isinstance checks that let base/sub/sibling classes compare equal; == raising for polygons of different length or for non-regions
   - tolerances: Quantity rtol, pixel tolerance relative to vector length, missing abs(), doubled rtol, y looser than x
   - stale caches in PixCoord.__eq__; polygon copies rebuilt from stale vertices; angle wrapped in constructor only
   - Regions slices/copies/extend adopting the source list""",
 'C17': """   - NaN/inf/zero/negative sizes (float, numpy, Decimal, Fraction, numeric strings); non-angular or array Quantities/Angles; unit checks via is_equivalent or substring of the physical type
   - validation after storing; setattr/update/extend/insert not atomic; dict assignment clearing before rejecting
   - annulus ordering not checked or compared across units by magnitude; nvertices lower bound only in the constructor; int() coercion
   - key whitelists bypassed via setdefault, |=, update(**kw), fromkeys, constructor fast paths, Meta objects of the other kind, alias keys, stripped/lower-cased keys, shared class-level memo
   - Regions constructor/append/extend/insert accepting non-regions (one-shot iterables, nested lists)
   - delattr of parameters; cached PixCoord.isscalar; wrong descriptor on one leaf class; AttributeError instead of ValueError
   - copy(**changes) bypassing validation""",
}
TEMPLATE = open('/verif/tools/prompts/breakage_example_C14.txt').read()
def make(name, prop, flavour):
    p = props[prop]
    t = TEMPLATE.replace('C14r', name)
    a = t.index('TITLE:'); b = t.index('Your task:')
    t = t[:a] + f"TITLE: {p['title']}\n\nSTATEMENT: {p['statement']}\n\nSCOPE (what the property quantifies over): {p['quantifier']['text']}\n\n" + t[b:]
    a = t.index('   - opening the output file'); b = t.index('Be inventive:')
    t = t[:a] + TRIED[prop] + '\n' + t[b:]
    t = t.replace('Be inventive:', flavour + ' Be inventive:')
    open(f'/tmp/prompts/{name}.txt', 'w').write(t)
TRIED['C13'] += """
   - switching representation_type of the caller's SkyCoord in a conversion helper
   - most-recently-used ordering of format identifiers in the registry"""
TRIED['C14'] += """
   - guard evaluated on abspath()/normpath() of the name while open() uses the name as given
   - guard moved behind serialisation (serialisation error wins over OSError)"""
TRIED['C16'] += """
   - copy() passing extra stored constructor arguments (polygon origin applied twice)
   - Meta.__eq__ with numpy broadcasting on array-valued entries"""
TRIED['C17'] += """
   - de-duplicated PixCoord validation losing the ndim == 1 test for vertices"""
TRIED['C13'] += """
   - as_mpl_selector filling defaults into the caller's reused props dict
   - serialisers popping from parser-attached private attributes (_raw_meta) of parsed regions
   - in-place unit conversion of a view of the region's angle in the FITS writer
   - per-object text memo with an option missing from the key; reader caching file texts by path"""
TRIED['C14'] += """
   - in-place conversion of the region's angle while building the FITS table (second write differs)
   - a 'resave' flag remembered on the Regions object; text memo keyed without radunit; reader cache for *.gz paths
   - half-fixes that remove the destination on UnicodeEncodeError"""
TRIED['C16'] += """
   - compound __eq__ retrying with swapped operands
   - __eq__ type guard on the value's own class (Angle vs Quantity asymmetry)
   - copy sharing scalar SkyCoord or array-valued meta entries; angles compared modulo 360; vertex tolerance differing from scalar tolerance"""
TRIED['C17'] += """
   - Meta.update dropping None-valued entries before the key check
   - operator.index instead of an integer test for bounding-box limits
   - descriptors accepting non-mappings for meta/visual; OneDSkyCoord accepting frame objects; setdefault not storing / alias overwriting
   - Regions keeping one-shot iterables; NaN angles"""
TRIED['C13'] += """
   - get_values writing into the caller's mask= array; CRTF writer leaving files behind on failure
   - shared default-argument objects (the default angle) edited through one region"""
TRIED['C14'] += """
   - str.splitlines() in a reader; unanchored extension regex in an identifier"""
TRIED['C16'] += """
   - deepcopy memo pre-seeded with replaced values; hand-written __deepcopy__ treating tuples as immutable
   - shared default angle object"""
TRIED['C17'] += """
   - in-place operators (+=) on PixCoord / Quantity parameters; np.ndim instead of np.isscalar"""
TRIED['C13'] += """
   - PixCoord.__iter__ keeping a cursor on the object; in-place sort of the caller's list in a serialiser
   - to_sky editing the region's own visual; FITS serialisation writing component numbers back into meta"""
TRIED['C14'] += """
   - FITS writer renumbering or sorting the COMPONENT column; user headers replacing the EXTNAME
   - writers accepting an identical existing file; guards on expandvars()-ed names"""
TRIED['C16'] += """
   - == on SkyCoords through their frames (extra attributes ignored); hand-written tolerance arithmetic (inf, unsigned wrap-around)
   - copies sharing operands' SkyCoords in compounds or array memory through views"""
TRIED['C17'] += """
   - angle written in place into the stored object; assignment skipped when == to the stored value
   - update()/|= unchecked for iterators; dimensionless Quantity sizes; half-mutated PixCoords; fractional vertex counts"""
TRIED['C13'] += """
   - matplotlib keyword dict memoised on the visual and handed out uncopied; a visual key written to matplotlib.rcParams"""
TRIED['C14'] += """
   - user header applied after the HDU is built (TSCAL/TZERO survive); pass-through open() options validated only inside open()"""
TRIED['C16'] += """
   - __eq__ returning NotImplemented with __ne__ negating it; deepcopy memo as a mutable default argument"""
TRIED['C17'] += """
   - Meta(mapping, **kw) merging into the caller's mapping; constructor dropping a repeated closing vertex"""
TRIED['C13'] += """
   - FITS parser attaching units to the caller's table columns; mask methods zeroing the mask's own weights in place"""
TRIED['C14'] += """
   - format identification through str(filename) (os.DirEntry); CRTF reader stripping trailing ' #...' comments"""
TRIED['C16'] += """
   - update()/|= storing alias keys verbatim; entry-by-entry meta comparison with array_equal"""
TRIED['C17'] += """
   - `meta or region1.meta` in compound constructors; compound operator turned into a plain attribute"""
TRIED['C13'] += """
   - roman->normal font style translation written back into the region's visual; registry look-ups through a defaultdict adding rows to get_formats()"""
TRIED['C14'] += """
   - FITS file writer wrapping ROTANG while serialize does not; Regions.read remembering the format on the returned object for a later write(format=None)"""
TRIED['C16'] += """
   - a subclass __eq__ that also compares derived (stale) vertices"""
TRIED['C17'] += """
   - Meta.__ror__ building a Meta without the key check; bounding-box limit ordering through a difference (unsigned wrap-around)"""
FL = {'C13am': 'Prefer a breakage in the less common region classes (Line, Text, Point, the three annuli, RectangleSky/EllipseSky) in to_pixel/to_sky/to_mask/bounding_box/as_artist/contains/rotate, where the call leaves something behind in the region, in its arguments (WCS, coordinates, images) or in module/class state.', 'C13an': 'Prefer a breakage at the Regions-list level or in the I/O registry (Regions.read/parse/serialize/write/get_formats, indexing and slicing, the registry tables, the identifier functions), where a call changes what a LATER, unrelated call returns.', 'C14am': 'Prefer a breakage in the FITS writer/serialiser/reader trio (regions/io/fits/*.py) that the DS9 and CRTF paths do not share, other than EXTNAME/COMPONENT handling.', 'C14an': 'Prefer a breakage that only shows in a SEQUENCE of writes: the same Regions object written to two destinations, two objects written to the same destination, or a good write after a failed one (or the other way round).', 'C16am': 'Prefer a breakage in copy(**changes) (a field given together with fields not given; changes that are themselves shared with the original; compound regions; Regions.copy if present) rather than in the plain copy().', 'C16an': 'Prefer a breakage in == between regions whose parameters are equal in value but differently typed or shaped (int vs float, Angle vs Quantity, Python list-built vs array-built PixCoord, 0-d arrays, differently ordered dicts), or between a pixel and a sky region of the same shape.', 'C17am': 'Prefer a breakage in the less used dictionary methods of RegionMeta/RegionVisual (pop, popitem, clear, __delitem__, copy, __or__, __ror__, fromkeys, __init__ with pairs) or in what they return.', 'C17an': 'Prefer a breakage in the validation done by PixCoord, RegionBoundingBox or RegionMask constructors and methods (shapes, integer limits, ordering of limits, mask/bbox shape agreement), or in SkyCoord-valued parameters (scalar vs array, frames).'}

for n, f in FL.items():
    make(n, n[:3], f)
