"""Run the repository's pinned test suite and compare with BASELINE.json.
usage: baseline.py [repo]   (exit 0 iff every stable_pass test passes)"""
import json, subprocess, sys, os, tempfile
import xml.etree.ElementTree as ET
repo = sys.argv[1] if len(sys.argv) > 1 else '/repo'
base = json.load(open('/root/.vp/BASELINE.json'))
out = tempfile.mktemp(suffix='.xml', dir='/dev/shm')
cmd = ['/venv/bin/python', '-m', 'pytest', '-ra', '-q', '-p', 'no:cacheprovider',
       '--timeout=900', '--continue-on-collection-errors', f'--junitxml={out}']
p = subprocess.run(cmd, cwd=repo, capture_output=True, text=True)
passed = set()
for tc in ET.parse(out).getroot().iter('testcase'):
    if not any(ch.tag in ('failure', 'error', 'skipped') for ch in tc):
        passed.add(f"{tc.get('classname')}::{tc.get('name')}")
os.remove(out)
want = set(base['stable_pass'])
missing = sorted(want - passed)
print(f'passed {len(passed)}, baseline stable_pass {len(want)}, missing {len(missing)}')
for m in missing[:20]:
    print('  MISSING', m)
print(p.stdout.strip().splitlines()[-1])
sys.exit(1 if missing else 0)
