"""Apply each hand-written mutant to a scratch worktree and run the check of
its property against it.  usage: run_mutants.py [id-substring ...] [--tests]"""
import os, subprocess, sys, json, shutil, time
sys.path.insert(0, '/verif')
from mutants.mutants import MUTANTS
args = [a for a in sys.argv[1:] if not a.startswith('--')]
tests = '--tests' in sys.argv
runs = {'C13': '480', 'C14': '2448', 'C16': '3000', 'C17': '3000'}
res = []
for m in MUTANTS:
    if args and not any(a in m['id'] for a in args):
        continue
    wt = f'/dev/shm/mut-{m["id"]}'
    subprocess.run(['git', '-C', '/repo', 'worktree', 'remove', '--force', wt], capture_output=True)
    subprocess.run(['/verif/tools/mkwt.sh', wt], check=True, capture_output=True)
    try:
        p = os.path.join(wt, m['file'])
        s = open(p).read()
        if m['old'] not in s:
            res.append((m['id'], 'PATCH-DOES-NOT-APPLY')); print(res[-1]); continue
        s = s.replace(m['old'], m['new'], 1)
        if 'old2' in m:
            if m['old2'] not in s:
                res.append((m['id'], 'PATCH-DOES-NOT-APPLY')); print(res[-1]); continue
            s = s.replace(m['old2'], m['new2'], 1)
        open(p, 'w').write(s)
        t = time.time()
        env = dict(os.environ, VERIF_REPO=wt)
        pr = subprocess.run(['/verif/check', m['prop'], '--no-evidence', '--no-selftest', '--runs', runs[m['prop']]],
                            env=env, capture_output=True, text=True)
        viol = [l for l in pr.stdout.splitlines() if l.startswith('oracle ')]
        status = {0: 'pass', 1: 'VIOLATION', 2: 'HARNESS-ERROR'}.get(pr.returncode, str(pr.returncode))
        want = m.get('expect', 'fail')
        ok = (want == 'any') or (want == 'fail' and pr.returncode == 1) or (want == 'pass' and pr.returncode == 0)
        tsum = ''
        if tests:
            tp = subprocess.run(['/venv/bin/python', '/verif/tools/baseline.py', wt], capture_output=True, text=True)
            tsum = tp.stdout.strip().splitlines()[0]
        res.append((m['id'], status, 'OK' if ok else 'UNEXPECTED', f'{time.time()-t:.0f}s', (viol[0][:150] if viol else ''), tsum))
        if pr.returncode == 2:
            print(pr.stdout[-1500:])
        print(res[-1], flush=True)
    finally:
        subprocess.run(['git', '-C', '/repo', 'worktree', 'remove', '--force', wt], capture_output=True)
json.dump(res, open('/dev/shm/mutants-result.json', 'w'), indent=1)
bad = [r for r in res if len(r) < 3 or r[2] != 'OK']
print(f'{len(res)} mutants, {len(bad)} unexpected')
