"""Verify a sub-agent's seeded change independently and run the checks on it.
usage: verify_seed.py <name> <property> <dir containing MUTATION.diff, demo_test.py> [--checks C13,C14]
Writes /verif/seeded/<name>/{patch.diff,demo_test.py,NOTES.md,meta.json}."""
import json, os, shutil, subprocess, sys, time
name, prop, src = sys.argv[1:4]
checks = [prop]
for a in sys.argv[4:]:
    if a.startswith('--checks'):
        checks = a.split('=')[1].split(',')
wt = f'/dev/shm/seedv-{name}'
def sh(cmd, **kw):
    return subprocess.run(cmd, capture_output=True, text=True, **kw)
sh(['git', '-C', '/repo', 'worktree', 'remove', '--force', wt])
sh(['/verif/tools/mkwt.sh', wt], check=True)
meta = {'name': name, 'property': prop, 'ran': []}
try:
    shutil.copy(os.path.join(src, 'demo_test.py'), wt)
    r0 = sh(['/venv/bin/python', 'demo_test.py'], cwd=wt)
    meta['demo_on_original'] = {'exit': r0.returncode, 'tail': r0.stdout.strip()[-200:]}
    ap = sh(['git', 'apply', os.path.join(src, 'MUTATION.diff')], cwd=wt)
    meta['patch_applies'] = ap.returncode == 0
    r1 = sh(['/venv/bin/python', 'demo_test.py'], cwd=wt)
    meta['demo_with_change'] = {'exit': r1.returncode, 'tail': r1.stdout.strip()[-300:]}
    tb = sh(['/venv/bin/python', '/verif/tools/baseline.py', wt])
    meta['test_suite_with_change'] = tb.stdout.strip().splitlines()
    meta['tests_ok'] = tb.returncode == 0
    for c in checks:
        t = time.time()
        pr = sh(['/verif/check', c, '--no-evidence', '--no-selftest'], env=dict(os.environ, VERIF_REPO=wt))
        lines = [l for l in pr.stdout.splitlines() if l.startswith(('oracle ', 'VIOLATION', 'KNOWN', 'HARNESS', c + ':'))]
        meta['ran'].append({'cmd': f'VERIF_REPO=<scratch worktree with patch> ./check {c} --no-evidence --no-selftest',
                            'exit': pr.returncode, 'seconds': round(time.time() - t), 'output': [l[:300] for l in lines[:8]]})
    meta['valid'] = bool(meta['patch_applies'] and r0.returncode == 0 and r1.returncode != 0 and meta['tests_ok'])
    meta['caught_by'] = [r['cmd'].split('./check ')[1].split()[0] for r in meta['ran'] if r['exit'] == 1]
finally:
    sh(['git', '-C', '/repo', 'worktree', 'remove', '--force', wt])
out = f'/verif/seeded/{name}'
os.makedirs(out, exist_ok=True)
shutil.copy(os.path.join(src, 'MUTATION.diff'), os.path.join(out, 'patch.diff'))
shutil.copy(os.path.join(src, 'demo_test.py'), out)
if os.path.exists(os.path.join(src, 'NOTES.md')):
    shutil.copy(os.path.join(src, 'NOTES.md'), out)
old = {}
if os.path.exists(os.path.join(out, 'meta.json')):
    old = json.load(open(os.path.join(out, 'meta.json')))
meta['needs'] = old.get('needs', '')
json.dump(meta, open(os.path.join(out, 'meta.json'), 'w'), indent=1)
print(json.dumps({k: meta[k] for k in ('name', 'valid', 'tests_ok', 'caught_by')}), [r['output'][:2] for r in meta['ran']])
