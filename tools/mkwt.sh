#!/bin/bash
# mkwt.sh <dir>: scratch git worktree of /repo HEAD with the untracked build outputs copied in
set -e
d="$1"
git -C /repo worktree add -q --detach "$d" HEAD
cp /repo/regions/_geometry/*.so "$d/regions/_geometry/"
cp /repo/regions/version.py "$d/regions/" 2>/dev/null || true
cp /repo/regions/compiler_version*.so "$d/regions/" 2>/dev/null || true
echo "$d"
