"""Re-run the claimed checks against every seeded change (seeded/<id>/patch.diff)
and every benign refactoring (benign/<id>/patch.diff).
usage: rerun_seeded.py [id-substring ...]   -> prints one line per patch; exit 1 if any expectation fails"""
import json, os, subprocess, sys, time
HERE = os.path.dirname(os.path.dirname(os.path.abspath(__file__)))
args = [a for a in sys.argv[1:] if not a.startswith('--')]
seeds = [None]
for a in sys.argv[1:]:
    if a.startswith('--seeds='):
        seeds = a.split('=')[1].split(',')
bad = 0
rows = []
def run(kind, name, patch, checks, expect):
    global bad
    wt = f'/dev/shm/rs-{name}'
    subprocess.run(['git', '-C', '/repo', 'worktree', 'remove', '--force', wt], capture_output=True)
    subprocess.run([os.path.join(HERE, 'tools/mkwt.sh'), wt], check=True, capture_output=True)
    try:
        ap = subprocess.run(['git', 'apply', patch], cwd=wt, capture_output=True, text=True)
        if ap.returncode != 0:
            print(kind, name, 'PATCH-DOES-NOT-APPLY', ap.stderr[:200]); bad += 1; return
        for c, sd in [(c, sd) for c in checks for sd in seeds]:
            t = time.time()
            env = dict(os.environ, VERIF_REPO=wt)
            if sd is not None:
                env['VERIF_SEED'] = sd
                c_label = f'{c}@seed{sd}'
            pr = subprocess.run([os.path.join(HERE, 'check'), c, '--no-evidence', '--no-selftest'],
                                env=env, capture_output=True, text=True)
            ok = (pr.returncode == expect)
            first = [l for l in pr.stdout.splitlines() if l.startswith(('oracle ', 'HARNESS'))][:1]
            print(kind, name, c, 'seed', sd, 'exit', pr.returncode, 'OK' if ok else 'UNEXPECTED', f'{time.time()-t:.0f}s', (first[0][:160] if first else ''), flush=True)
            rows.append([kind, name, c, pr.returncode, ok])
            bad += (not ok)
    finally:
        subprocess.run(['git', '-C', '/repo', 'worktree', 'remove', '--force', wt], capture_output=True)
for name in sorted(os.listdir(os.path.join(HERE, 'seeded'))):
    if args and not any(a in name for a in args):
        continue
    d = os.path.join(HERE, 'seeded', name)
    meta = json.load(open(os.path.join(d, 'meta.json')))
    # a planted change whose mechanism a later repair of /repo removed no
    # longer breaks the property (its own demonstration passes): the checks
    # must then be quiet on it
    expect = 0 if meta.get('neutralised_by') else 1
    run('seeded', name, os.path.join(d, 'patch.diff'), meta.get('caught_by') or [meta['property']], expect)
for name in sorted(os.listdir(os.path.join(HERE, 'benign'))):
    d = os.path.join(HERE, 'benign', name)
    if not os.path.isdir(d) or (args and not any(a in name for a in args)):
        continue
    checks = {'B13': ['C13', 'C14'], 'B14': ['C14', 'C13'], 'B16': ['C16', 'C17'], 'B17': ['C17', 'C16']}.get(name[:3], ['C13', 'C14', 'C16', 'C17'])
    run('benign', name, os.path.join(d, 'patch.diff'), checks, 0)
print(f'{len(rows)} check runs, {bad} unexpected')
sys.exit(1 if bad else 0)
